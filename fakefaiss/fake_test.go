package faiss

import (
	"encoding/binary"
	"encoding/json"
	"hash/crc32"
	"math"
	"math/rand"
	"reflect"
	"sort"
	"strings"
	"sync"
	"testing"
)

// ---------------------------------------------------------------------------
// independent reference model

type refVec struct {
	id int64
	v  []float32
}

func refDist(metric int, q, v []float32) float32 {
	var sum float32
	for i := range q {
		if metric == MetricL2 {
			d := q[i] - v[i]
			sum += float32(d * d)
		} else {
			sum += float32(q[i] * v[i])
		}
	}
	return sum
}

// refTopK is a straightforward oracle: filter, sort, pad.
func refTopK(metric int, data []refVec, q []float32, k int, accept func(int64) bool) ([]float32, []int64) {
	type hit struct {
		d  float32
		id int64
	}
	var hits []hit
	for _, rv := range data {
		if accept == nil || accept(rv.id) {
			hits = append(hits, hit{refDist(metric, q, rv.v), rv.id})
		}
	}
	sort.SliceStable(hits, func(i, j int) bool {
		if hits[i].d != hits[j].d {
			if metric == MetricL2 {
				return hits[i].d < hits[j].d
			}
			return hits[i].d > hits[j].d
		}
		return hits[i].id < hits[j].id
	})
	pad := float32(math.MaxFloat32)
	if metric == MetricInnerProduct {
		pad = -math.MaxFloat32
	}
	ds := make([]float32, k)
	ls := make([]int64, k)
	for i := 0; i < k; i++ {
		if i < len(hits) {
			ds[i], ls[i] = hits[i].d, hits[i].id
		} else {
			ds[i], ls[i] = pad, -1
		}
	}
	return ds, ls
}

func randData(rng *rand.Rand, n, d int, grid bool) ([]refVec, []float32, []int64) {
	data := make([]refVec, n)
	flat := make([]float32, 0, n*d)
	ids := make([]int64, n)
	perm := rng.Perm(n * 3)
	for i := range data {
		v := make([]float32, d)
		for j := range v {
			if grid {
				// small integer grid: plenty of exact distance ties
				v[j] = float32(rng.Intn(3))
			} else {
				v[j] = rng.Float32()*2 - 1
			}
		}
		id := int64(perm[i]) - int64(n)
		data[i] = refVec{id, v}
		ids[i] = id
		flat = append(flat, v...)
	}
	return data, flat, ids
}

func mustFactory(t testing.TB, d int, desc string, metric int) *IndexImpl {
	t.Helper()
	idx, err := IndexFactory(d, desc, metric)
	if err != nil {
		t.Fatalf("IndexFactory(%d,%q,%d): %v", d, desc, metric, err)
	}
	return idx
}

func checkEq(t *testing.T, what string, gotD []float32, gotL []int64, wantD []float32, wantL []int64) {
	t.Helper()
	if !reflect.DeepEqual(gotL, wantL) {
		t.Fatalf("%s: labels\n got  %v\n want %v", what, gotL, wantL)
	}
	if len(gotD) != len(wantD) {
		t.Fatalf("%s: %d distances, want %d", what, len(gotD), len(wantD))
	}
	for i := range gotD {
		if math.Float32bits(gotD[i]) != math.Float32bits(wantD[i]) {
			t.Fatalf("%s: distance %d: got %v want %v", what, i, gotD[i], wantD[i])
		}
	}
}

// ---------------------------------------------------------------------------
// flat

func TestFlatExactSearch(t *testing.T) {
	VerifReset()
	for _, metric := range []int{MetricL2, MetricInnerProduct} {
		for _, grid := range []bool{false, true} {
			rng := rand.New(rand.NewSource(int64(7 + metric)))
			const n, d = 60, 4
			data, flat, ids := randData(rng, n, d, grid)
			idx := mustFactory(t, d, "IDMap2,Flat", metric)
			if !idx.IsTrained() || idx.IsIVFIndex() || idx.D() != d || idx.MetricType() != metric {
				t.Fatalf("bad flat index properties")
			}
			if err := idx.AddWithIDs(flat, ids); err != nil {
				t.Fatal(err)
			}
			if idx.Ntotal() != n {
				t.Fatalf("Ntotal %d", idx.Ntotal())
			}
			if idx.Size() != 64+4*n*d+8*n {
				t.Fatalf("Size %d", idx.Size())
			}
			for trial := 0; trial < 40; trial++ {
				q := make([]float32, d)
				for j := range q {
					if grid {
						q[j] = float32(rng.Intn(3))
					} else {
						q[j] = rng.Float32()*2 - 1
					}
				}
				k := 1 + rng.Intn(n+10) // sometimes > n: padding

				gd, gl, err := idx.Search(q, int64(k))
				if err != nil {
					t.Fatal(err)
				}
				wd, wl := refTopK(metric, data, q, k, nil)
				checkEq(t, "Search", gd, gl, wd, wl)

				// exclusion
				ex := map[int64]bool{}
				var exList []int64
				for _, id := range ids {
					if rng.Intn(3) == 0 {
						ex[id] = true
						exList = append(exList, id)
					}
				}
				exList = append(exList, 1<<40) // unknown id is harmless
				gd, gl, err = idx.SearchWithoutIDs(q, int64(k), exList, nil)
				if err != nil {
					t.Fatal(err)
				}
				wd, wl = refTopK(metric, data, q, k, func(id int64) bool { return !ex[id] })
				checkEq(t, "SearchWithoutIDs", gd, gl, wd, wl)
				for _, l := range gl {
					if ex[l] {
						t.Fatalf("excluded id %d returned", l)
					}
				}

				// inclusion
				in := map[int64]bool{}
				var inList []int64
				for _, id := range ids {
					if rng.Intn(4) == 0 {
						in[id] = true
						inList = append(inList, id)
					}
				}
				gd, gl, err = idx.SearchWithIDs(q, int64(k), inList, json.RawMessage(`{"a":1}`))
				if err != nil {
					t.Fatal(err)
				}
				wd, wl = refTopK(metric, data, q, k, func(id int64) bool { return in[id] })
				checkEq(t, "SearchWithIDs", gd, gl, wd, wl)
			}
			idx.Close()
		}
	}
	if VerifLive() != 0 {
		t.Fatalf("live %d", VerifLive())
	}
}

func TestSearchEdgeCases(t *testing.T) {
	VerifReset()
	idx := mustFactory(t, 2, "IDMap2,Flat", MetricL2)
	defer idx.Close()
	// empty index: all padding
	d, l, err := idx.SearchWithoutIDs([]float32{0, 0}, 3, nil, nil)
	if err != nil {
		t.Fatal(err)
	}
	checkEq(t, "empty", d, l, []float32{math.MaxFloat32, math.MaxFloat32, math.MaxFloat32}, []int64{-1, -1, -1})

	if err := idx.AddWithIDs([]float32{1, 0, 0, 1, 1, 0}, []int64{9, 5, 3}); err != nil {
		t.Fatal(err)
	}
	// ids 9 and 3 hold the same vector: tie broken by ascending id
	d, l, err = idx.Search([]float32{1, 0}, 4)
	if err != nil {
		t.Fatal(err)
	}
	checkEq(t, "ties", d, l, []float32{0, 0, 2, math.MaxFloat32}, []int64{3, 9, 5, -1})

	// k <= 0
	for _, k := range []int64{0, -1} {
		d, l, err = idx.SearchWithoutIDs([]float32{1, 0}, k, nil, nil)
		if err != nil || d == nil || l == nil || len(d) != 0 || len(l) != 0 {
			t.Fatalf("k=%d: %v %v %v", k, d, l, err)
		}
	}
	// bad query length
	if _, _, err = idx.Search([]float32{1}, 1); err == nil {
		t.Fatal("want error for short query")
	}
	if _, _, err = idx.Search(nil, 1); err == nil {
		t.Fatal("want error for empty query")
	}
	// two queries at once
	d, l, err = idx.Search([]float32{1, 0, 0, 1}, 1)
	if err != nil {
		t.Fatal(err)
	}
	checkEq(t, "multi", d, l, []float32{0, 0}, []int64{3, 5})
	// params must be valid JSON when present
	if _, _, err = idx.SearchWithoutIDs([]float32{1, 0}, 1, nil, json.RawMessage(`{bad`)); err == nil {
		t.Fatal("want error for invalid params")
	}
	if _, _, err = idx.SearchWithIDs([]float32{1, 0}, 1, []int64{3}, json.RawMessage(`{bad`)); err == nil {
		t.Fatal("want error for invalid params")
	}
	if _, _, err = idx.SearchWithoutIDs([]float32{1, 0}, 1, nil, json.RawMessage(`{}`)); err != nil {
		t.Fatal(err)
	}
	// inner product padding
	ip := mustFactory(t, 1, "IDMap2,Flat", MetricInnerProduct)
	defer ip.Close()
	if err := ip.Add([]float32{2, -3}); err != nil {
		t.Fatal(err)
	}
	d, l, err = ip.Search([]float32{-1}, 3)
	if err != nil {
		t.Fatal(err)
	}
	checkEq(t, "ip", d, l, []float32{3, -2, -math.MaxFloat32}, []int64{1, 0, -1})

	// AddWithIDs length mismatch
	if err := idx.AddWithIDs([]float32{1, 2, 3}, []int64{1}); err == nil {
		t.Fatal("want length mismatch error")
	}
	// flat index specifics
	if err := idx.SetDirectMap(2); err == nil {
		t.Fatal("SetDirectMap on flat must fail")
	}
	idx.SetNProbe(7)
	if idx.GetNProbe() != 0 {
		t.Fatal("flat nprobe must be 0")
	}
	if err := idx.Train([]float32{1, 2}); err != nil {
		t.Fatal(err)
	}
	if _, err := idx.ObtainClusterVectorCountsFromIVFIndex([]int64{3}); err == nil {
		t.Fatal("want not-IVF error")
	}
	if _, _, err := idx.ObtainClustersWithDistancesFromIVFIndex([]float32{0, 0}, []int64{0}); err == nil {
		t.Fatal("want not-IVF error")
	}
	sel, _ := NewIDSelectorBatch([]int64{3})
	defer sel.Delete()
	if _, _, err := idx.SearchClustersFromIVFIndex(sel, []int64{0}, 1, 1, []float32{0, 0}, nil, nil); err == nil {
		t.Fatal("want not-IVF error")
	}
}

func TestNaNRanksLast(t *testing.T) {
	VerifReset()
	idx := mustFactory(t, 1, "IDMap2,Flat", MetricL2)
	defer idx.Close()
	nan := float32(math.NaN())
	if err := idx.AddWithIDs([]float32{nan, 5, nan, 1}, []int64{1, 2, 3, 4}); err != nil {
		t.Fatal(err)
	}
	_, l, err := idx.Search([]float32{0}, 5)
	if err != nil {
		t.Fatal(err)
	}
	if !reflect.DeepEqual(l, []int64{4, 2, 1, 3, -1}) {
		t.Fatalf("labels %v", l)
	}
}

func TestIndexFactoryErrors(t *testing.T) {
	VerifReset()
	bad := []struct {
		d    int
		desc string
		m    int
	}{
		{0, "IDMap2,Flat", MetricL2},
		{-1, "IDMap2,Flat", MetricL2},
		{3, "Flat", MetricL2},
		{3, "IDMap2,Flat ", MetricL2},
		{3, "IVF,Flat", MetricL2},
		{3, "IVF0,Flat", MetricL2},
		{3, "IVF-4,Flat", MetricL2},
		{3, "IVF+4,Flat", MetricL2},
		{3, "IVF4,PQ8", MetricL2},
		{3, "IVF4", MetricL2},
		{3, "IVF4,Flat,Flat", MetricL2},
		{3, "HNSW32", MetricL2},
		{3, "", MetricL2},
		{3, "IDMap2,Flat", 2},
	}
	for _, c := range bad {
		if idx, err := IndexFactory(c.d, c.desc, c.m); err == nil || idx != nil {
			t.Fatalf("IndexFactory(%d,%q,%d) should fail", c.d, c.desc, c.m)
		}
	}
	if VerifCreated() != 0 {
		t.Fatalf("created %d", VerifCreated())
	}
	for _, desc := range []string{"IVF10,Flat", "IVF100,SQ8", "IVF7,SQ4"} {
		idx := mustFactory(t, 3, desc, MetricInnerProduct)
		if !idx.IsIVFIndex() || idx.IsTrained() || idx.GetNProbe() != 1 {
			t.Fatalf("%s: bad properties", desc)
		}
		idx.Close()
	}
	SetOMPThreads(1)
}

// ---------------------------------------------------------------------------
// IVF

// buildIVF makes a 1-d L2 IVF index with centroids 0, 10, 20, 30 and the
// vectors 0,1,2, 10,11,12, 20,21,22, 30,31,32 under ids 100+value.
func buildIVF(t *testing.T) *IndexImpl {
	t.Helper()
	idx := mustFactory(t, 1, "IVF4,Flat", MetricL2)
	if err := idx.SetDirectMap(2); err != nil {
		t.Fatal(err)
	}
	var vecs []float32
	var ids []int64
	for _, c := range []float32{0, 10, 20, 30} {
		for _, o := range []float32{0, 1, 2} {
			vecs = append(vecs, c+o)
			ids = append(ids, int64(100+c+o))
		}
	}
	if err := idx.AddWithIDs(vecs, ids); err == nil || !strings.Contains(err.Error(), "not trained") {
		t.Fatalf("add before train: %v", err)
	}
	if err := idx.Train([]float32{0, 10, 20}); err == nil || !strings.Contains(err.Error(), "nx >= k") {
		t.Fatalf("train with too few vectors: %v", err)
	}
	if err := idx.Train([]float32{0, 10, 20, 30, 99, 98}); err != nil {
		t.Fatal(err)
	}
	if !idx.IsTrained() {
		t.Fatal("not trained")
	}
	if err := idx.AddWithIDs(vecs, ids); err != nil {
		t.Fatal(err)
	}
	return idx
}

func TestIVF(t *testing.T) {
	VerifReset()
	idx := buildIVF(t)
	defer idx.Close()

	counts, err := idx.ObtainClusterVectorCountsFromIVFIndex([]int64{100, 101, 112, 130, 131, 132})
	if err != nil {
		t.Fatal(err)
	}
	if !reflect.DeepEqual(counts, map[int64]int64{0: 2, 1: 1, 3: 3}) {
		t.Fatalf("counts %v", counts)
	}
	if _, err := idx.ObtainClusterVectorCountsFromIVFIndex([]int64{100, 555}); err == nil {
		t.Fatal("want unknown id error")
	}

	// nprobe 1: only the cluster around 10 is visible, genuinely approximate
	q := []float32{13}
	d, l, err := idx.Search(q, 5)
	if err != nil {
		t.Fatal(err)
	}
	checkEq(t, "nprobe1", d, l, []float32{1, 4, 9, math.MaxFloat32, math.MaxFloat32},
		[]int64{112, 111, 110, -1, -1})
	// exclusion inside the probed cluster does not widen the probe
	d, l, err = idx.SearchWithoutIDs(q, 3, []int64{112}, nil)
	if err != nil {
		t.Fatal(err)
	}
	checkEq(t, "nprobe1-ex", d, l, []float32{4, 9, math.MaxFloat32}, []int64{111, 110, -1})
	// inclusion of ids in a non-probed cluster finds nothing
	d, l, err = idx.SearchWithIDs(q, 2, []int64{120, 121}, nil)
	if err != nil {
		t.Fatal(err)
	}
	checkEq(t, "nprobe1-in", d, l, []float32{math.MaxFloat32, math.MaxFloat32}, []int64{-1, -1})

	// nprobe 2: clusters 10 and 20
	idx.SetNProbe(2)
	if idx.GetNProbe() != 2 {
		t.Fatal("nprobe")
	}
	d, l, err = idx.Search(q, 5)
	if err != nil {
		t.Fatal(err)
	}
	checkEq(t, "nprobe2", d, l, []float32{1, 4, 9, 49, 64}, []int64{112, 111, 110, 120, 121})
	d, l, err = idx.SearchWithIDs(q, 2, []int64{120, 121, 130}, nil)
	if err != nil {
		t.Fatal(err)
	}
	checkEq(t, "nprobe2-in", d, l, []float32{49, 64}, []int64{120, 121})

	// nprobe beyond nlist is clamped: exact
	idx.SetNProbe(100)
	d, l, err = idx.Search(q, 12)
	if err != nil {
		t.Fatal(err)
	}
	if l[11] == -1 || l[0] != 112 {
		t.Fatalf("clamped probe: %v %v", d, l)
	}
	// tie between centroids 10 and 20 for q=15 -> lowest centroid index wins
	idx.SetNProbe(1)
	_, l, err = idx.Search([]float32{15}, 1)
	if err != nil {
		t.Fatal(err)
	}
	if l[0] != 112 {
		t.Fatalf("centroid tie: %v", l)
	}
	// nprobe 0 mimics the FAISS assertion
	idx.SetNProbe(0)
	if _, _, err = idx.Search(q, 1); err == nil {
		t.Fatal("want nprobe error")
	}
	idx.SetNProbe(1)

	// centroid ordering
	cids, cdis, err := idx.ObtainClustersWithDistancesFromIVFIndex(q, []int64{3, 0, 2})
	if err != nil {
		t.Fatal(err)
	}
	if !reflect.DeepEqual(cids, []int64{2, 0, 3}) || !reflect.DeepEqual(cdis, []float32{49, 169, 289}) {
		t.Fatalf("clusters %v %v", cids, cdis)
	}
	if _, _, err = idx.ObtainClustersWithDistancesFromIVFIndex(q, []int64{4}); err == nil {
		t.Fatal("want out of range centroid error")
	}
	if _, _, err = idx.ObtainClustersWithDistancesFromIVFIndex([]float32{1, 2}, []int64{0}); err == nil {
		t.Fatal("want query length error")
	}

	// SearchClustersFromIVFIndex with both selector kinds
	batch, err := NewIDSelectorBatch([]int64{100, 102, 120, 131})
	if err != nil {
		t.Fatal(err)
	}
	not, err := NewIDSelectorNot([]int64{120, 121, 101})
	if err != nil {
		t.Fatal(err)
	}
	if VerifSelectorsLive() != 2 {
		t.Fatalf("selectors live %d", VerifSelectorsLive())
	}
	d, l, err = idx.SearchClustersFromIVFIndex(batch, []int64{2, 0, 3}, 2, 4, q, cdis, nil)
	if err != nil {
		t.Fatal(err)
	}
	checkEq(t, "clusters-batch", d, l, []float32{49, 121, 169, math.MaxFloat32}, []int64{120, 102, 100, -1})
	d, l, err = idx.SearchClustersFromIVFIndex(not, []int64{2, 0, 3}, 2, 3, q, cdis, json.RawMessage(`{}`))
	if err != nil {
		t.Fatal(err)
	}
	checkEq(t, "clusters-not", d, l, []float32{81, 121, 169}, []int64{122, 102, 100})
	// minEligibleCentroids clamped to len / to 0
	d, l, err = idx.SearchClustersFromIVFIndex(batch, []int64{2, 0, 3}, 99, 4, q, cdis, nil)
	if err != nil {
		t.Fatal(err)
	}
	checkEq(t, "clusters-clamp", d, l, []float32{49, 121, 169, 324}, []int64{120, 102, 100, 131})
	d, l, err = idx.SearchClustersFromIVFIndex(batch, []int64{2, 0, 3}, -1, 1, q, cdis, nil)
	if err != nil {
		t.Fatal(err)
	}
	checkEq(t, "clusters-none", d, l, []float32{math.MaxFloat32}, []int64{-1})
	if _, _, err = idx.SearchClustersFromIVFIndex(batch, []int64{7}, 1, 1, q, nil, nil); err == nil {
		t.Fatal("want centroid range error")
	}
	if _, _, err = idx.SearchClustersFromIVFIndex(batch, []int64{0}, 1, 1, q, nil, json.RawMessage(`nope`)); err == nil {
		t.Fatal("want params error")
	}
	if _, _, err = idx.SearchClustersFromIVFIndex(nil, []int64{0}, 1, 1, q, nil, nil); err == nil {
		t.Fatal("want nil selector error")
	}
	batch.Delete()
	not.Delete()
	if VerifSelectorsLive() != 0 || VerifSelectorMisuse() != 0 {
		t.Fatalf("selectors live %d misuse %d", VerifSelectorsLive(), VerifSelectorMisuse())
	}
	if _, _, err = idx.SearchClustersFromIVFIndex(batch, []int64{0}, 1, 1, q, nil, nil); err == nil {
		t.Fatal("want deleted selector error")
	}
	batch.Delete()
	if VerifSelectorMisuse() != 2 {
		t.Fatalf("misuse %d", VerifSelectorMisuse())
	}
}

func TestIVFInnerProductAssignment(t *testing.T) {
	VerifReset()
	idx := mustFactory(t, 2, "IVF2,SQ8", MetricInnerProduct)
	defer idx.Close()
	if err := idx.Train([]float32{1, 0, 0, 1}); err != nil {
		t.Fatal(err)
	}
	// (5,1)->c0, (1,5)->c1, (2,2) tie -> c0
	if err := idx.AddWithIDs([]float32{5, 1, 1, 5, 2, 2}, []int64{1, 2, 3}); err != nil {
		t.Fatal(err)
	}
	counts, err := idx.ObtainClusterVectorCountsFromIVFIndex([]int64{1, 2, 3})
	if err != nil {
		t.Fatal(err)
	}
	if !reflect.DeepEqual(counts, map[int64]int64{0: 2, 1: 1}) {
		t.Fatalf("counts %v", counts)
	}
	cids, cdis, err := idx.ObtainClustersWithDistancesFromIVFIndex([]float32{1, 3}, []int64{0, 1})
	if err != nil {
		t.Fatal(err)
	}
	if !reflect.DeepEqual(cids, []int64{1, 0}) || !reflect.DeepEqual(cdis, []float32{3, 1}) {
		t.Fatalf("clusters %v %v", cids, cdis)
	}
	d, l, err := idx.Search([]float32{1, 3}, 2) // probes c1 only
	if err != nil {
		t.Fatal(err)
	}
	checkEq(t, "ip-ivf", d, l, []float32{16, -math.MaxFloat32}, []int64{2, -1})
}

func TestIVFMatchesModelOnRandomData(t *testing.T) {
	VerifReset()
	for _, metric := range []int{MetricL2, MetricInnerProduct} {
		rng := rand.New(rand.NewSource(99))
		const n, d, nlist = 300, 3, 8
		data, flat, ids := randData(rng, n, d, false)
		idx := mustFactory(t, d, "IVF8,Flat", metric)
		if err := idx.Train(flat); err != nil {
			t.Fatal(err)
		}
		if err := idx.AddWithIDs(flat, ids); err != nil {
			t.Fatal(err)
		}
		closest := func(q []float32) []int {
			order := make([]int, nlist)
			for i := range order {
				order[i] = i
			}
			sort.SliceStable(order, func(a, b int) bool {
				da, db := refDist(metric, q, data[order[a]].v), refDist(metric, q, data[order[b]].v)
				if metric == MetricL2 {
					return da < db
				}
				return da > db
			})
			return order
		}
		cluster := map[int64]int{}
		for _, rv := range data {
			cluster[rv.id] = closest(rv.v)[0]
		}
		approx := 0
		for _, nprobe := range []int32{1, 3, 8} {
			idx.SetNProbe(nprobe)
			for trial := 0; trial < 20; trial++ {
				q := []float32{rng.Float32()*2 - 1, rng.Float32()*2 - 1, rng.Float32()*2 - 1}
				probe := map[int]bool{}
				for _, c := range closest(q)[:nprobe] {
					probe[c] = true
				}
				gd, gl, err := idx.SearchWithoutIDs(q, 10, ids[:50], nil)
				if err != nil {
					t.Fatal(err)
				}
				ex := map[int64]bool{}
				for _, id := range ids[:50] {
					ex[id] = true
				}
				wd, wl := refTopK(metric, data, q, 10, func(id int64) bool { return !ex[id] && probe[cluster[id]] })
				checkEq(t, "ivf-model", gd, gl, wd, wl)
				_, exact := refTopK(metric, data, q, 10, func(id int64) bool { return !ex[id] })
				if !reflect.DeepEqual(exact, gl) {
					approx++
					if nprobe == nlist {
						t.Fatal("full probe must be exact")
					}
				}
			}
		}
		if approx == 0 {
			t.Fatal("IVF search was never approximate")
		}
		idx.Close()
	}
}

// ---------------------------------------------------------------------------
// reconstruct

func TestReconstruct(t *testing.T) {
	VerifReset()
	flat := mustFactory(t, 2, "IDMap2,Flat", MetricL2)
	defer flat.Close()
	if err := flat.AddWithIDs([]float32{1, 2, 3, 4, 5, 6}, []int64{7, 8, 7}); err != nil {
		t.Fatal(err)
	}
	if flat.Ntotal() != 3 {
		t.Fatal("duplicates must both be kept")
	}
	v, err := flat.Reconstruct(8)
	if err != nil || !reflect.DeepEqual(v, []float32{3, 4}) {
		t.Fatalf("%v %v", v, err)
	}
	v, err = flat.Reconstruct(7) // last one wins
	if err != nil || !reflect.DeepEqual(v, []float32{5, 6}) {
		t.Fatalf("%v %v", v, err)
	}
	if _, err = flat.Reconstruct(9); err == nil {
		t.Fatal("want unknown id error")
	}
	buf := make([]float32, 5)
	if _, err = flat.ReconstructBatch([]int64{8, 7}, buf[:3]); err == nil {
		t.Fatal("want short buffer error")
	}
	out, err := flat.ReconstructBatch([]int64{8, 7}, buf)
	if err != nil || len(out) != 5 || &out[0] != &buf[0] || !reflect.DeepEqual(buf, []float32{3, 4, 5, 6, 0}) {
		t.Fatalf("%v %v", out, err)
	}
	if _, err = flat.ReconstructBatch([]int64{8, 99}, buf); err == nil {
		t.Fatal("want unknown id error")
	}
	if out, err = flat.ReconstructBatch(nil, nil); err != nil || len(out) != 0 {
		t.Fatalf("%v %v", out, err)
	}

	ivf := mustFactory(t, 1, "IVF2,SQ4", MetricL2)
	defer ivf.Close()
	if err := ivf.Train([]float32{0, 10}); err != nil {
		t.Fatal(err)
	}
	if err := ivf.AddWithIDs([]float32{1}, []int64{1}); err != nil {
		t.Fatal(err)
	}
	if _, err = ivf.Reconstruct(1); err == nil || !strings.Contains(err.Error(), "direct map not initialized") {
		t.Fatalf("want direct map error, got %v", err)
	}
	if _, err = ivf.ReconstructBatch([]int64{1}, buf); err == nil {
		t.Fatal("want direct map error")
	}
	if err := ivf.SetDirectMap(2); err != nil {
		t.Fatal(err)
	}
	if err := ivf.AddWithIDs([]float32{9}, []int64{2}); err != nil {
		t.Fatal(err)
	}
	if _, err = ivf.Reconstruct(1); err == nil {
		t.Fatal("id added before the direct map must stay unknown")
	}
	if v, err = ivf.Reconstruct(2); err != nil || v[0] != 9 {
		t.Fatalf("%v %v", v, err)
	}
	if _, err = ivf.Reconstruct(3); err == nil {
		t.Fatal("want unknown id error")
	}
	// round trip keeps the direct map state
	ser, err := WriteIndexIntoBuffer(ivf)
	if err != nil {
		t.Fatal(err)
	}
	back, err := ReadIndexFromBuffer(ser, IOFlagReadMmap|IOFlagSkipPrefetch)
	if err != nil {
		t.Fatal(err)
	}
	defer back.Close()
	if _, err = back.Reconstruct(1); err == nil {
		t.Fatal("direct map start lost in round trip")
	}
	if v, err = back.Reconstruct(2); err != nil || v[0] != 9 {
		t.Fatalf("%v %v", v, err)
	}
	if err := ivf.SetDirectMap(0); err != nil {
		t.Fatal(err)
	}
	if _, err = ivf.Reconstruct(2); err == nil {
		t.Fatal("direct map disabled")
	}
}

// ---------------------------------------------------------------------------
// serialization

func sameIndex(t *testing.T, a, b *IndexImpl) {
	t.Helper()
	if a.kind != b.kind || a.d != b.d || a.metric != b.metric || a.nlist != b.nlist ||
		a.nprobe != b.nprobe || a.trained != b.trained || a.directMap != b.directMap || a.dmStart != b.dmStart {
		t.Fatalf("header differs: %+v vs %+v", a, b)
	}
	eqF := func(x, y []float32) bool {
		if len(x) != len(y) {
			return false
		}
		for i := range x {
			if math.Float32bits(x[i]) != math.Float32bits(y[i]) {
				return false
			}
		}
		return true
	}
	if !eqF(a.centroids, b.centroids) || !eqF(a.vecs, b.vecs) {
		t.Fatal("float data differs")
	}
	if len(a.ids) != len(b.ids) || (len(a.ids) > 0 && !reflect.DeepEqual(a.ids, b.ids)) {
		t.Fatal("ids differ")
	}
	if len(a.assign) != len(b.assign) || (len(a.assign) > 0 && !reflect.DeepEqual(a.assign, b.assign)) {
		t.Fatal("assignment differs")
	}
	if !reflect.DeepEqual(a.pos, b.pos) {
		t.Fatal("position map differs")
	}
	if len(a.lists) != len(b.lists) {
		t.Fatal("lists differ")
	}
	for i := range a.lists {
		if len(a.lists[i]) != len(b.lists[i]) || (len(a.lists[i]) > 0 && !reflect.DeepEqual(a.lists[i], b.lists[i])) {
			t.Fatal("lists differ")
		}
	}
	if a.Size() != b.Size() || a.Ntotal() != b.Ntotal() {
		t.Fatal("size differs")
	}
}

func sampleIndexes(t *testing.T) []*IndexImpl {
	t.Helper()
	rng := rand.New(rand.NewSource(5))
	var out []*IndexImpl

	out = append(out, mustFactory(t, 3, "IDMap2,Flat", MetricL2)) // empty flat

	_, flat, ids := randData(rng, 20, 3, false)
	flat[4] = float32(math.NaN())
	flat[5] = float32(math.Inf(-1))
	flat[6] = float32(math.Copysign(0, -1))
	f := mustFactory(t, 3, "IDMap2,Flat", MetricInnerProduct)
	if err := f.AddWithIDs(flat, ids); err != nil {
		t.Fatal(err)
	}
	if err := f.AddWithIDs(flat[:3], []int64{ids[3]}); err != nil { // duplicate id
		t.Fatal(err)
	}
	out = append(out, f)

	out = append(out, mustFactory(t, 2, "IVF3,Flat", MetricL2)) // untrained IVF

	_, flat, ids = randData(rng, 40, 2, false)
	v := mustFactory(t, 2, "IVF5,SQ8", MetricL2)
	if err := v.Train(flat); err != nil {
		t.Fatal(err)
	}
	if err := v.AddWithIDs(flat[:20], ids[:10]); err != nil {
		t.Fatal(err)
	}
	if err := v.SetDirectMap(2); err != nil {
		t.Fatal(err)
	}
	v.SetNProbe(3)
	if err := v.AddWithIDs(flat[20:], ids[10:]); err != nil {
		t.Fatal(err)
	}
	out = append(out, v)

	e := mustFactory(t, 2, "IVF2,SQ4", MetricInnerProduct) // trained, empty
	if err := e.Train([]float32{1, 2, 3, 4}); err != nil {
		t.Fatal(err)
	}
	out = append(out, e)
	return out
}

func TestSerializationRoundTrip(t *testing.T) {
	VerifReset()
	for i, idx := range sampleIndexes(t) {
		buf, err := WriteIndexIntoBuffer(idx)
		if err != nil {
			t.Fatal(err)
		}
		shadow := append([]byte(nil), buf...)
		back, err := ReadIndexFromBuffer(buf, IOFlagReadOnly)
		if err != nil {
			t.Fatalf("index %d: %v", i, err)
		}
		// the buffer must not be retained: scribble over it
		for j := range buf {
			buf[j] = 0xAA
		}
		sameIndex(t, idx, back)
		again, err := WriteIndexIntoBuffer(back)
		if err != nil {
			t.Fatal(err)
		}
		if !reflect.DeepEqual(again, shadow) {
			t.Fatalf("index %d: re-serialization differs", i)
		}
		// searches agree
		q := make([]float32, idx.D())
		for j := range q {
			q[j] = 0.25
		}
		d1, l1, e1 := idx.Search(q, 7)
		d2, l2, e2 := back.Search(q, 7)
		if e1 != nil || e2 != nil {
			t.Fatal(e1, e2)
		}
		checkEq(t, "roundtrip search", d2, l2, d1, l1)
		idx.Close()
		back.Close()
	}
	if VerifLive() != 0 || VerifCreated() != 10 {
		t.Fatalf("live %d created %d", VerifLive(), VerifCreated())
	}
}

func TestReadRejectsEveryPrefixAndGarbage(t *testing.T) {
	VerifReset()
	for i, idx := range sampleIndexes(t) {
		buf, err := WriteIndexIntoBuffer(idx)
		if err != nil {
			t.Fatal(err)
		}
		for n := 0; n < len(buf); n++ {
			if got, err := ReadIndexFromBuffer(buf[:n:n], 0); err == nil || got != nil {
				t.Fatalf("index %d: prefix of %d/%d bytes accepted", i, n, len(buf))
			}
		}
		// trailing garbage
		if _, err := ReadIndexFromBuffer(append(append([]byte(nil), buf...), 0), 0); err == nil {
			t.Fatalf("index %d: trailing byte accepted", i)
		}
		// every single-bit flip is caught (by a structural check or the CRC)
		for pos := 0; pos < len(buf); pos++ {
			for bit := 0; bit < 8; bit++ {
				mut := append([]byte(nil), buf...)
				mut[pos] ^= 1 << bit
				if _, err := ReadIndexFromBuffer(mut, 0); err == nil {
					t.Fatalf("index %d: bit flip at %d.%d accepted", i, pos, bit)
				}
			}
		}
		idx.Close()
	}
	if _, err := ReadIndexFromBuffer(nil, 0); err == nil {
		t.Fatal("nil buffer accepted")
	}
	rng := rand.New(rand.NewSource(1))
	for trial := 0; trial < 2000; trial++ {
		g := make([]byte, rng.Intn(200))
		rng.Read(g)
		if trial%2 == 0 && len(g) >= 5 {
			copy(g, magic)
		}
		if _, err := ReadIndexFromBuffer(g, 0); err == nil {
			t.Fatalf("garbage accepted: %x", g)
		}
	}
	if VerifLive() != 0 {
		t.Fatalf("failed reads must not create indexes: live %d", VerifLive())
	}
}

// TestReadRejectsCraftedHeaders feeds structurally wrong buffers that carry a
// valid checksum, so the structural validation itself is exercised.
func TestReadRejectsCraftedHeaders(t *testing.T) {
	VerifReset()
	le := binary.LittleEndian
	fix := func(b []byte) []byte {
		le.PutUint32(b[len(b)-4:], crc32.ChecksumIEEE(b[:len(b)-4]))
		return b
	}
	idx := buildIVF(t)
	good, err := WriteIndexIntoBuffer(idx)
	if err != nil {
		t.Fatal(err)
	}
	idx.Close()
	if back, err := ReadIndexFromBuffer(fix(append([]byte(nil), good...)), 0); err != nil {
		t.Fatal(err)
	} else {
		back.Close()
	}
	mutations := map[string]func(b []byte){
		"kind":            func(b []byte) { b[5] = 2 },
		"kind flat":       func(b []byte) { b[5] = 0 },
		"metric":          func(b []byte) { b[6] = 9 },
		"trained flag":    func(b []byte) { b[7] = 2 },
		"untrained":       func(b []byte) { b[7] = 0 },
		"dm flag":         func(b []byte) { b[8] = 7 },
		"dm off w/ start": func(b []byte) { b[8] = 0; le.PutUint64(b[21:], 1) },
		"d zero":          func(b []byte) { le.PutUint32(b[9:], 0) },
		"d huge":          func(b []byte) { le.PutUint32(b[9:], math.MaxUint32) },
		"d two":           func(b []byte) { le.PutUint32(b[9:], 2) },
		"nlist zero":      func(b []byte) { le.PutUint32(b[13:], 0) },
		"nlist small":     func(b []byte) { le.PutUint32(b[13:], 3) },
		"nlist huge":      func(b []byte) { le.PutUint32(b[13:], math.MaxUint32) },
		"dmstart big":     func(b []byte) { le.PutUint64(b[21:], 13) },
		"dmstart huge":    func(b []byte) { le.PutUint64(b[21:], math.MaxUint64) },
		"ncent huge":      func(b []byte) { le.PutUint64(b[29:], math.MaxUint64) },
		"ncent 2^62":      func(b []byte) { le.PutUint64(b[29:], 1<<62) },
		"ntotal huge":     func(b []byte) { le.PutUint64(b[37:], math.MaxUint64) },
		"ntotal 2^61":     func(b []byte) { le.PutUint64(b[37:], 1<<61) },
		"ntotal +1":       func(b []byte) { le.PutUint64(b[37:], 13) },
		"ntotal -1":       func(b []byte) { le.PutUint64(b[37:], 11) },
		"assign range":    func(b []byte) { le.PutUint32(b[len(b)-8:], 4) },
	}
	for name, mut := range mutations {
		b := append([]byte(nil), good...)
		mut(b)
		if got, err := ReadIndexFromBuffer(fix(b), 0); err == nil || got != nil {
			t.Fatalf("%s: accepted", name)
		}
	}
	if VerifLive() != 0 {
		t.Fatalf("live %d", VerifLive())
	}
}

func FuzzReadIndexFromBuffer(f *testing.F) {
	for _, idx := range []func() *IndexImpl{
		func() *IndexImpl {
			i, _ := IndexFactory(2, "IDMap2,Flat", MetricL2)
			_ = i.Add([]float32{1, 2})
			return i
		},
		func() *IndexImpl {
			i, _ := IndexFactory(1, "IVF2,Flat", MetricL2)
			_ = i.Train([]float32{1, 2})
			_ = i.Add([]float32{1, 2, 3})
			return i
		},
	} {
		b, _ := WriteIndexIntoBuffer(idx())
		f.Add(b)
	}
	f.Fuzz(func(t *testing.T, b []byte) {
		// patch the checksum half of the time so structure checks are reached
		if len(b) > headerLen+4 && b[len(b)-1]&1 == 0 {
			binary.LittleEndian.PutUint32(b[len(b)-4:], crc32.ChecksumIEEE(b[:len(b)-4]))
		}
		idx, err := ReadIndexFromBuffer(b, 0)
		if err != nil {
			return
		}
		q := make([]float32, idx.D())
		if _, _, err := idx.Search(q, 3); err != nil && idx.GetNProbe() > 0 {
			t.Fatal(err)
		}
		out, err := WriteIndexIntoBuffer(idx)
		if err != nil || !reflect.DeepEqual(out, b) {
			t.Fatalf("accepted buffer does not re-serialize identically: %v", err)
		}
		idx.Close()
	})
}

// ---------------------------------------------------------------------------
// instrumentation

func TestFaultInjection(t *testing.T) {
	VerifReset()
	const inj = "fakefaiss: injected failure in "

	VerifFailNth("IndexFactory", 2)
	a := mustFactory(t, 1, "IVF2,Flat", MetricL2)
	if b, err := IndexFactory(1, "IVF2,Flat", MetricL2); err == nil || b != nil || err.Error() != inj+"IndexFactory" {
		t.Fatalf("want injected failure, got %v", err)
	}
	if VerifCreated() != 1 {
		t.Fatalf("failed factory created an index")
	}
	c := mustFactory(t, 1, "IDMap2,Flat", MetricL2) // plan is consumed
	defer c.Close()
	defer a.Close()

	// several plans at once, different ops, and two on the same op
	VerifFailNth("SetDirectMap", 1)
	VerifFailNth("Train", 1)
	VerifFailNth("AddWithIDs", 2)
	VerifFailNth("AddWithIDs", 3)
	if err := a.SetDirectMap(2); err == nil || err.Error() != inj+"SetDirectMap" {
		t.Fatal(err)
	}
	if err := a.SetDirectMap(2); err != nil {
		t.Fatal(err)
	}
	if err := a.Train([]float32{0, 10}); err == nil || err.Error() != inj+"Train" {
		t.Fatal(err)
	}
	if a.IsTrained() {
		t.Fatal("failed Train must not train")
	}
	if err := a.Train([]float32{0, 10}); err != nil {
		t.Fatal(err)
	}
	if err := a.AddWithIDs([]float32{1}, []int64{1}); err != nil {
		t.Fatal(err)
	}
	for i := 0; i < 2; i++ {
		if err := a.AddWithIDs([]float32{2}, []int64{2}); err == nil || err.Error() != inj+"AddWithIDs" {
			t.Fatal(err)
		}
	}
	if a.Ntotal() != 1 {
		t.Fatal("failed AddWithIDs must not add")
	}
	if err := a.AddWithIDs([]float32{11}, []int64{2}); err != nil {
		t.Fatal(err)
	}

	fails := func(op string, f func() error) {
		t.Helper()
		VerifFailNth(op, 1)
		if err := f(); err == nil || err.Error() != inj+op {
			t.Fatalf("%s: want injected failure, got %v", op, err)
		}
		if err := f(); err != nil {
			t.Fatalf("%s: second call: %v", op, err)
		}
	}
	var ser []byte
	fails("WriteIndexIntoBuffer", func() (err error) { ser, err = WriteIndexIntoBuffer(a); return })
	created := VerifCreated()
	fails("ReadIndexFromBuffer", func() error {
		idx, err := ReadIndexFromBuffer(ser, 0)
		if idx != nil {
			idx.Close()
		}
		return err
	})
	if VerifCreated() != created+1 {
		t.Fatal("failed read created an index")
	}
	q := []float32{1}
	fails("ReconstructBatch", func() error { _, err := a.ReconstructBatch([]int64{1}, make([]float32, 1)); return err })
	fails("Reconstruct", func() error { _, err := a.Reconstruct(1); return err })
	fails("Search", func() error { _, _, err := a.Search(q, 1); return err })
	fails("SearchWithoutIDs", func() error { _, _, err := a.SearchWithoutIDs(q, 1, nil, nil); return err })
	fails("SearchWithIDs", func() error { _, _, err := a.SearchWithIDs(q, 1, []int64{1}, nil); return err })
	fails("ObtainClusterVectorCountsFromIVFIndex", func() error {
		_, err := a.ObtainClusterVectorCountsFromIVFIndex([]int64{1})
		return err
	})
	fails("ObtainClustersWithDistancesFromIVFIndex", func() error {
		_, _, err := a.ObtainClustersWithDistancesFromIVFIndex(q, []int64{0})
		return err
	})
	var sel Selector
	fails("NewIDSelectorBatch", func() (err error) { sel, err = NewIDSelectorBatch([]int64{1}); return })
	fails("SearchClustersFromIVFIndex", func() error {
		_, _, err := a.SearchClustersFromIVFIndex(sel, []int64{0}, 1, 1, q, nil, nil)
		return err
	})
	sel.Delete()
	fails("NewIDSelectorNot", func() (err error) {
		sel, err = NewIDSelectorNot([]int64{1})
		if sel != nil {
			sel.Delete()
		}
		return
	})
	fails("Add", func() error { return c.Add([]float32{1}) })
	if VerifSelectorsLive() != 0 || VerifSelectorsCreated() != 2 || VerifSelectorsDeleted() != 2 {
		t.Fatalf("selector accounting: %d %d", VerifSelectorsCreated(), VerifSelectorsDeleted())
	}

	// clearing a plan
	VerifFailNth("Search", 1)
	VerifFailNth("Search", 0)
	if _, _, err := a.Search(q, 1); err != nil {
		t.Fatal(err)
	}

	counts := VerifOpCounts()
	if counts["IndexFactory"] != 3 || counts["AddWithIDs"] != 4 || counts["SetDirectMap"] != 2 ||
		counts["Search"] != 3 || counts["Train"] != 2 {
		t.Fatalf("counts %v", counts)
	}
	counts["IndexFactory"] = 0 // must be a copy
	if VerifOpCounts()["IndexFactory"] != 3 {
		t.Fatal("VerifOpCounts must return a copy")
	}
	VerifReset()
	if len(VerifOpCounts()) != 0 {
		t.Fatal("reset must clear counts")
	}
	VerifFailNth("Train", 1)
	VerifReset()
	if err := a.Train(nil); err != nil {
		t.Fatalf("reset must clear the fault plan: %v", err)
	}
}

func TestCallbackAndLog(t *testing.T) {
	VerifReset()
	var mu sync.Mutex
	var seen []string
	VerifOpLog(true)
	VerifOnOp(func(op string) {
		// must be callable without deadlock: no internal lock is held
		_ = VerifOpCounts()
		_ = VerifLive()
		mu.Lock()
		seen = append(seen, op)
		mu.Unlock()
	})
	VerifFailNth("Train", 1)
	idx := mustFactory(t, 1, "IVF1,Flat", MetricL2)
	_ = idx.SetDirectMap(2)
	_ = idx.Train([]float32{0}) // injected failure still triggers the callback
	_ = idx.Train([]float32{0})
	_ = idx.AddWithIDs([]float32{1}, []int64{4})
	buf, _ := WriteIndexIntoBuffer(idx)
	back, _ := ReadIndexFromBuffer(buf, 0)
	_, _ = back.ReconstructBatch([]int64{4}, make([]float32, 1))
	_, _, _ = back.SearchWithoutIDs([]float32{0}, 1, nil, nil)
	_, _, _ = back.SearchWithIDs([]float32{0}, 1, []int64{4}, nil)
	_, _ = back.ObtainClusterVectorCountsFromIVFIndex([]int64{4})
	_, _, _ = back.ObtainClustersWithDistancesFromIVFIndex([]float32{0}, []int64{0})
	s1, _ := NewIDSelectorBatch(nil)
	s2, _ := NewIDSelectorNot(nil)
	_, _, _ = back.SearchClustersFromIVFIndex(s2, []int64{0}, 1, 1, []float32{0}, nil, nil)
	s1.Delete()
	s2.Delete()
	idx.Close()
	back.Close()
	want := []string{"IndexFactory", "SetDirectMap", "Train", "Train", "AddWithIDs", "WriteIndexIntoBuffer",
		"ReadIndexFromBuffer", "ReconstructBatch", "SearchWithoutIDs", "SearchWithIDs",
		"ObtainClusterVectorCountsFromIVFIndex", "ObtainClustersWithDistancesFromIVFIndex",
		"NewIDSelectorBatch", "NewIDSelectorNot", "SearchClustersFromIVFIndex", "Close", "Close"}
	if !reflect.DeepEqual(seen, want) {
		t.Fatalf("callback saw %v", seen)
	}
	if log := VerifTakeOpLog(); !reflect.DeepEqual(log, want) {
		t.Fatalf("log %v", log)
	}
	if log := VerifTakeOpLog(); len(log) != 0 {
		t.Fatalf("log not cleared: %v", log)
	}
	VerifOnOp(nil)
	VerifOpLog(false)
	c := mustFactory(t, 1, "IDMap2,Flat", MetricL2)
	c.Close()
	if len(seen) != len(want) || len(VerifTakeOpLog()) != 0 {
		t.Fatal("callback / log not cleared")
	}
}

func TestLifecycleCounters(t *testing.T) {
	VerifReset()
	a := mustFactory(t, 2, "IDMap2,Flat", MetricL2)
	b := mustFactory(t, 2, "IVF2,Flat", MetricL2)
	if err := a.AddWithIDs([]float32{1, 2}, []int64{1}); err != nil {
		t.Fatal(err)
	}
	buf, err := WriteIndexIntoBuffer(a)
	if err != nil {
		t.Fatal(err)
	}
	c, err := ReadIndexFromBuffer(buf, 0)
	if err != nil {
		t.Fatal(err)
	}
	if VerifCreated() != 3 || VerifLive() != 3 || VerifClosed() != 0 {
		t.Fatalf("created %d live %d", VerifCreated(), VerifLive())
	}
	a.Close()
	if VerifLive() != 2 || VerifClosed() != 1 || VerifDoubleClosed() != 0 {
		t.Fatal("after first close")
	}
	a.Close()
	a.Close()
	if VerifLive() != 2 || VerifClosed() != 1 || VerifDoubleClosed() != 2 {
		t.Fatalf("double close: live %d closed %d double %d", VerifLive(), VerifClosed(), VerifDoubleClosed())
	}
	if VerifUsedAfterClose() != 0 {
		t.Fatal("Close is not a use")
	}

	// every method on a closed index: no panic, zero values / ErrClosed, counted
	uses := 0
	use := func(err error) {
		t.Helper()
		uses++
		if err != ErrClosed {
			t.Fatalf("use %d: want ErrClosed, got %v", uses, err)
		}
		if VerifUsedAfterClose() != int64(uses) {
			t.Fatalf("use %d: counter %d", uses, VerifUsedAfterClose())
		}
	}
	zero := func(ok bool) {
		t.Helper()
		uses++
		if !ok || VerifUsedAfterClose() != int64(uses) {
			t.Fatalf("use %d: ok=%v counter %d", uses, ok, VerifUsedAfterClose())
		}
	}
	VerifFailNth("Train", 1) // closed check comes first and does not consume the plan
	zero(a.D() == 0)
	zero(a.MetricType() == 0)
	zero(a.Ntotal() == 0)
	zero(!a.IsTrained())
	zero(!a.IsIVFIndex())
	zero(a.GetNProbe() == 0)
	a.SetNProbe(3)
	zero(true)
	zero(a.Size() == 0)
	use(a.Train([]float32{1, 2}))
	use(a.Add([]float32{1, 2}))
	use(a.AddWithIDs([]float32{1, 2}, []int64{5}))
	use(a.SetDirectMap(2))
	_, err = a.Reconstruct(1)
	use(err)
	_, err = a.ReconstructBatch([]int64{1}, make([]float32, 2))
	use(err)
	q := []float32{0, 0}
	d, l, err := a.Search(q, 1)
	use(err)
	if d != nil || l != nil {
		t.Fatal("closed search must return nil slices")
	}
	_, _, err = a.SearchWithoutIDs(q, 1, nil, nil)
	use(err)
	_, _, err = a.SearchWithIDs(q, 1, []int64{1}, nil)
	use(err)
	_, err = a.ObtainClusterVectorCountsFromIVFIndex([]int64{1})
	use(err)
	_, _, err = a.ObtainClustersWithDistancesFromIVFIndex(q, []int64{0})
	use(err)
	sel, _ := NewIDSelectorBatch([]int64{1})
	_, _, err = a.SearchClustersFromIVFIndex(sel, []int64{0}, 1, 1, q, nil, nil)
	use(err)
	sel.Delete()
	_, err = WriteIndexIntoBuffer(a)
	use(err)
	if err := b.Train([]float32{1, 2}); err == nil || !strings.Contains(err.Error(), "injected") {
		t.Fatalf("plan must still be pending: %v", err)
	}

	// nil index: no panic, not counted
	var nilIdx *IndexImpl
	nilIdx.Close()
	if nilIdx.D() != 0 || nilIdx.Size() != 0 || nilIdx.IsIVFIndex() {
		t.Fatal("nil getters")
	}
	if _, _, err := nilIdx.Search(q, 1); err != ErrNilIndex {
		t.Fatal(err)
	}
	if _, err := WriteIndexIntoBuffer(nil); err != ErrNilIndex {
		t.Fatal(err)
	}
	if VerifUsedAfterClose() != int64(uses) || VerifDoubleClosed() != 2 {
		t.Fatal("nil index must not touch the counters")
	}

	b.Close()
	c.Close()
	if VerifLive() != 0 || VerifCreated() != 3 || VerifClosed() != 3 || VerifClosedInUse() != 0 {
		t.Fatal("final accounting")
	}
	VerifReset()
	if VerifCreated() != 0 || VerifClosed() != 0 || VerifDoubleClosed() != 0 || VerifUsedAfterClose() != 0 {
		t.Fatal("reset")
	}
}

func TestCloseWhileInUseIsVisible(t *testing.T) {
	VerifReset()
	idx := mustFactory(t, 1, "IDMap2,Flat", MetricL2)
	if err := idx.Add([]float32{1, 2, 3}); err != nil {
		t.Fatal(err)
	}
	// Close from inside the op callback: the search is already in flight.
	VerifOnOp(func(op string) {
		if op == "SearchWithoutIDs" {
			idx.Close()
		}
	})
	_, _, err := idx.SearchWithoutIDs([]float32{0}, 1, nil, nil)
	if err != ErrClosed {
		t.Fatalf("want ErrClosed, got %v", err)
	}
	if VerifClosedInUse() != 1 || VerifUsedAfterClose() != 1 || VerifLive() != 0 {
		t.Fatalf("closedInUse %d usedAfterClose %d", VerifClosedInUse(), VerifUsedAfterClose())
	}
	VerifReset()
}

func TestConcurrentSearches(t *testing.T) {
	VerifReset()
	rng := rand.New(rand.NewSource(3))
	data, flat, ids := randData(rng, 200, 4, false)
	f := mustFactory(t, 4, "IDMap2,Flat", MetricL2)
	v := mustFactory(t, 4, "IVF4,Flat", MetricL2)
	for _, idx := range []*IndexImpl{f, v} {
		if idx.IsIVFIndex() {
			if err := idx.SetDirectMap(2); err != nil {
				t.Fatal(err)
			}
			if err := idx.Train(flat); err != nil {
				t.Fatal(err)
			}
			idx.SetNProbe(4)
		}
		if err := idx.AddWithIDs(flat, ids); err != nil {
			t.Fatal(err)
		}
	}
	VerifOnOp(func(string) {})
	const workers, rounds = 8, 40
	var wg sync.WaitGroup
	errs := make(chan string, workers)
	for w := 0; w < workers; w++ {
		wg.Add(1)
		go func(w int) {
			defer wg.Done()
			rng := rand.New(rand.NewSource(int64(w)))
			for r := 0; r < rounds; r++ {
				q := []float32{rng.Float32(), rng.Float32(), rng.Float32(), rng.Float32()}
				ex := ids[:rng.Intn(50)]
				exm := map[int64]bool{}
				for _, id := range ex {
					exm[id] = true
				}
				_, wl := refTopK(MetricL2, data, q, 5, func(id int64) bool { return !exm[id] })
				for _, idx := range []*IndexImpl{f, v} {
					_, gl, err := idx.SearchWithoutIDs(q, 5, ex, nil)
					if err != nil || !reflect.DeepEqual(gl, wl) {
						errs <- "concurrent search mismatch"
						return
					}
					if _, err := idx.ReconstructBatch(ids[:3], make([]float32, 12)); err != nil {
						errs <- err.Error()
						return
					}
					_ = idx.Size()
				}
				sel, err := NewIDSelectorNot(ex)
				if err != nil {
					errs <- err.Error()
					return
				}
				_, gl, err := v.SearchClustersFromIVFIndex(sel, []int64{0, 1, 2, 3}, 4, 5, q, nil, nil)
				sel.Delete()
				if err != nil || !reflect.DeepEqual(gl, wl) {
					errs <- "concurrent cluster search mismatch"
					return
				}
				if w == 0 && r%10 == 0 {
					VerifFailNth("Train", 1000000)
					_ = VerifOpCounts()
				}
			}
		}(w)
	}
	wg.Wait()
	close(errs)
	for e := range errs {
		t.Fatal(e)
	}
	if got := VerifOpCounts()["SearchWithoutIDs"]; got != workers*rounds*2 {
		t.Fatalf("SearchWithoutIDs count %d", got)
	}
	f.Close()
	v.Close()
	if VerifLive() != 0 || VerifSelectorsLive() != 0 || VerifClosedInUse() != 0 {
		t.Fatal("accounting")
	}
	VerifReset()
}
