package faiss

import (
	"encoding/binary"
	"fmt"
	"hash/crc32"
	"math"
)

// Serialization format "FKFS1" (all integers and floats little-endian, floats
// as IEEE-754 bit patterns so NaN payloads and signed zeros round-trip):
//
//	offset size            field
//	0      5               magic "FKFS1"
//	5      1               kind: 0 = flat (IDMap2,Flat), 1 = IVF
//	6      1               metric: 0 = inner product, 1 = L2
//	7      1               trained flag (0/1; always 1 for flat)
//	8      1               direct-map flag (0/1; always 0 for flat)
//	9      4   uint32      d
//	13     4   uint32      nlist (0 for flat, >= 1 for IVF)
//	17     4   int32       nprobe (0 for flat)
//	21     8   uint64      direct-map start: number of vectors that were stored
//	                       before the direct map was enabled (0 if flag is 0)
//	29     8   uint64      ncentroids (nlist if IVF and trained, else 0)
//	37     8   uint64      ntotal
//	45     4*ncentroids*d  centroids, float32
//	...    8*ntotal        ids, int64, in insertion order
//	...    4*ntotal*d      vectors, float32, in insertion order
//	...    4*ntotal        cluster assignment, uint32 (IVF only, absent for flat)
//	...    4   uint32      CRC-32 (IEEE) of all preceding bytes
//
// The total length must match exactly; there is no padding and no trailing
// data.
const (
	magic     = "FKFS1"
	headerLen = 45
)

// WriteIndexIntoBuffer serializes idx into a fresh buffer.
func WriteIndexIntoBuffer(idx *IndexImpl) ([]byte, error) {
	err := idx.begin("WriteIndexIntoBuffer")
	defer idx.end()
	if err != nil {
		return nil, err
	}
	ncent := len(idx.centroids) / idx.d
	n := len(idx.ids)
	size := headerLen + 4*len(idx.centroids) + 8*n + 4*len(idx.vecs) + 4*len(idx.assign) + 4
	buf := make([]byte, 0, size)
	buf = append(buf, magic...)
	buf = append(buf, byte(idx.kind), byte(idx.metric), b2u8(idx.trained), b2u8(idx.directMap))
	le := binary.LittleEndian
	buf = le.AppendUint32(buf, uint32(idx.d))
	buf = le.AppendUint32(buf, uint32(idx.nlist))
	buf = le.AppendUint32(buf, uint32(idx.nprobe))
	buf = le.AppendUint64(buf, uint64(idx.dmStart))
	buf = le.AppendUint64(buf, uint64(ncent))
	buf = le.AppendUint64(buf, uint64(n))
	for _, f := range idx.centroids {
		buf = le.AppendUint32(buf, math.Float32bits(f))
	}
	for _, id := range idx.ids {
		buf = le.AppendUint64(buf, uint64(id))
	}
	for _, f := range idx.vecs {
		buf = le.AppendUint32(buf, math.Float32bits(f))
	}
	for _, a := range idx.assign {
		buf = le.AppendUint32(buf, a)
	}
	buf = le.AppendUint32(buf, crc32.ChecksumIEEE(buf))
	return buf, nil
}

func b2u8(b bool) byte {
	if b {
		return 1
	}
	return 0
}

// ReadIndexFromBuffer deserializes an index written by WriteIndexIntoBuffer.
// Everything is copied out of buf; buf is not retained (it may be an mmap'd
// region that goes away). ioflags is ignored. Malformed input yields an error,
// never a panic.
func ReadIndexFromBuffer(buf []byte, ioflags int) (*IndexImpl, error) {
	if err := verifOp("ReadIndexFromBuffer"); err != nil {
		return nil, err
	}
	idx, err := decodeIndex(buf)
	if err != nil {
		return nil, fmt.Errorf("fakefaiss: read index: %w", err)
	}
	vCreated.Add(1)
	return idx, nil
}

func decodeIndex(buf []byte) (*IndexImpl, error) {
	if len(buf) < headerLen+4 {
		return nil, fmt.Errorf("buffer too short (%d bytes)", len(buf))
	}
	if string(buf[:len(magic)]) != magic {
		return nil, fmt.Errorf("bad magic")
	}
	le := binary.LittleEndian
	kind, metric, trained, dm := buf[5], buf[6], buf[7], buf[8]
	d := uint64(le.Uint32(buf[9:]))
	nlist := uint64(le.Uint32(buf[13:]))
	nprobe := int32(le.Uint32(buf[17:]))
	dmStart := le.Uint64(buf[21:])
	ncent := le.Uint64(buf[29:])
	ntotal := le.Uint64(buf[37:])

	if kind != kindFlat && kind != kindIVF {
		return nil, fmt.Errorf("unknown index kind %d", kind)
	}
	if metric != MetricInnerProduct && metric != MetricL2 {
		return nil, fmt.Errorf("unknown metric %d", metric)
	}
	if trained > 1 || dm > 1 {
		return nil, fmt.Errorf("invalid flags")
	}
	if d == 0 || d > maxDim {
		return nil, fmt.Errorf("invalid dimension %d", d)
	}
	// Every count is bounded by the buffer length before it takes part in any
	// multiplication, so the size computation below cannot overflow:
	// each factor is < 2^31 on any realistic buffer and d <= 2^20.
	limit := uint64(len(buf))
	if ncent > limit || ntotal > limit || ntotal > math.MaxInt32 {
		return nil, fmt.Errorf("counts exceed buffer size")
	}
	if kind == kindFlat {
		if nlist != 0 || ncent != 0 || trained != 1 || dm != 0 || nprobe != 0 {
			return nil, fmt.Errorf("inconsistent flat index header")
		}
	} else {
		if nlist == 0 || nlist > math.MaxInt32 {
			return nil, fmt.Errorf("invalid nlist %d", nlist)
		}
		if trained == 1 && ncent != nlist {
			return nil, fmt.Errorf("trained IVF index with %d centroids, nlist %d", ncent, nlist)
		}
		if trained == 0 && (ncent != 0 || ntotal != 0) {
			return nil, fmt.Errorf("untrained IVF index with data")
		}
	}
	if (dm == 0 && dmStart != 0) || dmStart > ntotal {
		return nil, fmt.Errorf("invalid direct map start %d", dmStart)
	}
	if ncent*d > limit || ntotal*d > limit {
		return nil, fmt.Errorf("counts exceed buffer size")
	}
	want := uint64(headerLen) + 4*ncent*d + 8*ntotal + 4*ntotal*d + 4
	if kind == kindIVF {
		want += 4 * ntotal
	}
	if want != limit {
		return nil, fmt.Errorf("buffer is %d bytes, header describes %d", limit, want)
	}
	body := buf[:len(buf)-4]
	if crc32.ChecksumIEEE(body) != le.Uint32(buf[len(buf)-4:]) {
		return nil, fmt.Errorf("checksum mismatch")
	}

	idx := &IndexImpl{
		kind:      int(kind),
		d:         int(d),
		metric:    int(metric),
		nlist:     int(nlist),
		nprobe:    nprobe,
		trained:   trained == 1,
		directMap: dm == 1,
		dmStart:   int(dmStart),
		pos:       make(map[int64]int32, ntotal),
	}
	off := headerLen
	idx.centroids = make([]float32, ncent*d)
	for i := range idx.centroids {
		idx.centroids[i] = math.Float32frombits(le.Uint32(buf[off:]))
		off += 4
	}
	idx.ids = make([]int64, ntotal)
	for i := range idx.ids {
		idx.ids[i] = int64(le.Uint64(buf[off:]))
		idx.pos[idx.ids[i]] = int32(i)
		off += 8
	}
	idx.vecs = make([]float32, ntotal*d)
	for i := range idx.vecs {
		idx.vecs[i] = math.Float32frombits(le.Uint32(buf[off:]))
		off += 4
	}
	if kind == kindIVF {
		if idx.trained {
			idx.lists = make([][]int32, nlist)
		}
		idx.assign = make([]uint32, ntotal)
		for i := range idx.assign {
			a := le.Uint32(buf[off:])
			off += 4
			if uint64(a) >= nlist {
				return nil, fmt.Errorf("cluster assignment %d out of range [0,%d)", a, nlist)
			}
			idx.assign[i] = a
			idx.lists[a] = append(idx.lists[a], int32(i))
		}
	}
	return idx, nil
}
