package faiss

import (
	"fmt"
	"sync"
	"sync/atomic"
)

// This file holds the instrumentation and fault-injection layer of the fake.
// Everything exported here carries the Verif prefix and does not exist in the
// real go-faiss package.
//
// Instrumented operations ("ops"). Each of them, at its very start, invokes the
// VerifOnOp callback (with no internal lock held), is counted in
// VerifOpCounts, is appended to the op log when enabled, and (except Close)
// can be made to fail with VerifFailNth:
//
//	IndexFactory, SetDirectMap, Train, Add, AddWithIDs, WriteIndexIntoBuffer,
//	ReadIndexFromBuffer, Reconstruct, ReconstructBatch, Search,
//	SearchWithoutIDs, SearchWithIDs, SearchClustersFromIVFIndex,
//	ObtainClusterVectorCountsFromIVFIndex,
//	ObtainClustersWithDistancesFromIVFIndex, NewIDSelectorBatch,
//	NewIDSelectorNot, Close
//
// Order of events inside an index method op:
//  1. the index's in-flight counter is incremented,
//  2. callback, count, log,
//  3. closed check (a closed index counts one VerifUsedAfterClose and the op
//     returns ErrClosed without consuming a fault-plan slot),
//  4. fault-plan check,
//  5. the operation itself.
//
// Cheap getters (D, MetricType, Ntotal, IsTrained, IsIVFIndex, GetNProbe,
// SetNProbe, Size) are not ops; they only perform the closed check.

var (
	vCreated        atomic.Int64
	vClosed         atomic.Int64
	vDoubleClosed   atomic.Int64
	vUsedAfterClose atomic.Int64
	vClosedInUse    atomic.Int64
	vSelCreated     atomic.Int64
	vSelDeleted     atomic.Int64
	vSelMisuse      atomic.Int64

	vmu       sync.Mutex
	vCounts   = map[string]int64{}
	vPlan     = map[string][]int{}
	vCallback func(op string)
	vLogOn    bool
	vLog      []string
)

// VerifReset zeroes all counters, clears the fault plan, the callback and the
// op log (and disables op logging). Indexes that are still open keep working;
// note that closing, after a reset, an index created before the reset makes
// VerifLive negative.
func VerifReset() {
	vmu.Lock()
	vCounts = map[string]int64{}
	vPlan = map[string][]int{}
	vCallback = nil
	vLogOn = false
	vLog = nil
	vmu.Unlock()
	vCreated.Store(0)
	vClosed.Store(0)
	vDoubleClosed.Store(0)
	vUsedAfterClose.Store(0)
	vClosedInUse.Store(0)
	vSelCreated.Store(0)
	vSelDeleted.Store(0)
	vSelMisuse.Store(0)
}

// VerifCreated is the number of indexes successfully created by IndexFactory
// or ReadIndexFromBuffer since the last reset.
func VerifCreated() int64 { return vCreated.Load() }

// VerifClosed is the number of indexes closed (first Close only).
func VerifClosed() int64 { return vClosed.Load() }

// VerifLive is VerifCreated minus VerifClosed.
func VerifLive() int64 { return vCreated.Load() - vClosed.Load() }

// VerifDoubleClosed is the number of Close calls on an already closed index.
func VerifDoubleClosed() int64 { return vDoubleClosed.Load() }

// VerifUsedAfterClose is the number of calls of any method other than Close
// (or of WriteIndexIntoBuffer) on a closed index.
func VerifUsedAfterClose() int64 { return vUsedAfterClose.Load() }

// VerifClosedInUse is the number of (first) Close calls that happened while at
// least one other op was executing on the same index (detected through a
// per-index atomic in-flight counter). Together with VerifUsedAfterClose this
// makes a Close racing with a search visible: either the search sees the
// closed flag (used-after-close) or Close sees the search in flight.
func VerifClosedInUse() int64 { return vClosedInUse.Load() }

// VerifSelectorsCreated is the number of selectors successfully created.
func VerifSelectorsCreated() int64 { return vSelCreated.Load() }

// VerifSelectorsDeleted is the number of selectors deleted (first Delete only).
func VerifSelectorsDeleted() int64 { return vSelDeleted.Load() }

// VerifSelectorsLive is selectors created minus selectors deleted.
func VerifSelectorsLive() int64 { return vSelCreated.Load() - vSelDeleted.Load() }

// VerifSelectorMisuse counts double Delete calls plus uses of a deleted
// selector in SearchClustersFromIVFIndex.
func VerifSelectorMisuse() int64 { return vSelMisuse.Load() }

// VerifFailNth makes the n-th (1-based, counted from now, per op) call of op
// fail with fmt.Errorf("fakefaiss: injected failure in %s", op) without doing
// the operation. Several plans, for the same or for different ops, may be
// pending at once; each counts calls from the moment it was registered.
// n <= 0 removes all pending plans of op.
func VerifFailNth(op string, n int) {
	vmu.Lock()
	defer vmu.Unlock()
	if n <= 0 {
		delete(vPlan, op)
		return
	}
	vPlan[op] = append(vPlan[op], n)
}

// VerifOpCounts returns a copy of the per-op call counts since the last reset.
// Calls that failed (injected or genuine) and calls on closed indexes are
// counted too.
func VerifOpCounts() map[string]int64 {
	vmu.Lock()
	defer vmu.Unlock()
	rv := make(map[string]int64, len(vCounts))
	for k, v := range vCounts {
		rv[k] = v
	}
	return rv
}

// VerifOnOp installs f as the callback invoked at the start of every op
// (before the fault check), nil clears it. f is called without any internal
// lock held and may itself call into this package.
func VerifOnOp(f func(op string)) {
	vmu.Lock()
	vCallback = f
	vmu.Unlock()
}

// VerifOpLog enables or disables recording of op names, in call order.
func VerifOpLog(enable bool) {
	vmu.Lock()
	vLogOn = enable
	vmu.Unlock()
}

// VerifTakeOpLog returns the recorded op names and clears the log.
func VerifTakeOpLog() []string {
	vmu.Lock()
	defer vmu.Unlock()
	rv := vLog
	vLog = nil
	return rv
}

// verifEnter runs the callback, then counts and logs op.
func verifEnter(op string) {
	vmu.Lock()
	cb := vCallback
	vmu.Unlock()
	if cb != nil {
		cb(op)
	}
	vmu.Lock()
	vCounts[op]++
	if vLogOn {
		vLog = append(vLog, op)
	}
	vmu.Unlock()
}

// verifFault advances the fault plans of op by one call and reports the
// injected error if one of them fires.
func verifFault(op string) error {
	fail := false
	vmu.Lock()
	if plans := vPlan[op]; len(plans) > 0 {
		kept := plans[:0]
		for _, n := range plans {
			n--
			if n == 0 {
				fail = true
			} else {
				kept = append(kept, n)
			}
		}
		if len(kept) == 0 {
			delete(vPlan, op)
		} else {
			vPlan[op] = kept
		}
	}
	vmu.Unlock()
	if fail {
		return fmt.Errorf("fakefaiss: injected failure in %s", op)
	}
	return nil
}

// verifOp is the prologue of package-level ops.
func verifOp(op string) error {
	verifEnter(op)
	return verifFault(op)
}
