// Package faiss is a pure-Go (no cgo) test double for the subset of
// github.com/blevesearch/go-faiss v1.0.25 used by github.com/blevesearch/zapx/v16.
//
// It performs exact brute-force search (flat index) or a deliberately simple,
// fully deterministic IVF emulation (first-nlist-training-vectors centroids,
// nprobe-limited search), and adds instrumentation and fault injection (see
// verif.go, everything prefixed Verif).
//
// # Arithmetic (replicated bit-for-bit by the verification model)
//
// All distances are computed in float32, accumulating coordinate by
// coordinate in index order, with every product rounded to float32 before it
// is added (the explicit float32(...) conversion forbids the compiler from
// fusing the multiply and the add into an FMA):
//
//	L2 (MetricL2):            sum := float32(0); for i { d := q[i] - v[i]; sum += float32(d * d) }
//	inner product (MetricIP): sum := float32(0); for i { sum += float32(q[i] * v[i]) }
//
// where q is the query and v the stored vector (or centroid). L2 is the
// SQUARED Euclidean distance, smaller is better. Inner product is the plain
// dot product, larger is better.
//
// # Result ordering
//
// Candidates are ordered best distance first; ties are broken by ascending
// vector id, then by ascending insertion position (only relevant when the
// same id was added twice). NaN distances rank after every non-NaN distance.
// Every search returns exactly k results per query, padded with label -1 and
// distance math.MaxFloat32 (L2) or -math.MaxFloat32 (inner product).
//
// # IVF emulation
//
//   - Train(x): centroids = the first nlist vectors of x; fewer than nlist
//     training vectors is an error. Training an already trained index is a
//     no-op (as in FAISS when the quantizer is already populated).
//   - AddWithIDs: each vector goes to the cluster of its nearest centroid
//     (smallest squared L2 distance, or largest dot product for the inner
//     product metric), ties to the lowest centroid index.
//   - Search / SearchWithoutIDs / SearchWithIDs scan only the min(nprobe,
//     nlist) clusters whose centroids are nearest to the query (same
//     closeness and tie rule), so results are genuinely approximate.
//     nprobe defaults to 1; nprobe <= 0 makes IVF searches fail (FAISS:
//     "nprobe > 0" assertion).
//   - Quantisers (Flat, SQ8, SQ4) are ignored: vectors are stored exactly.
//   - Reconstruct / ReconstructBatch on an IVF index only know the vectors
//     added while a direct map was enabled (SetDirectMap(non-zero) before the
//     add); otherwise they fail with "direct map not initialized".
//   - When an id was added more than once, id based lookups (reconstruct,
//     cluster of an id) resolve to the most recently added vector, like the
//     FAISS hashtable direct map / IDMap2 reverse map.
package faiss

import (
	"encoding/json"
	"errors"
	"fmt"
	"math"
	"sort"
	"strconv"
	"strings"
	"sync/atomic"
)

// Metric types (same numeric values as FAISS).
const (
	MetricInnerProduct = 0
	MetricL2           = 1
)

// IO flags. They are accepted and ignored by ReadIndexFromBuffer, which always
// copies everything out of the buffer.
const (
	IOFlagMmap         = 0x1
	IOFlagReadOnly     = 0x2
	IOFlagReadMmap     = 0x10 | 0x646f0000
	IOFlagSkipPrefetch = 0x20
)

const (
	kindFlat = 0
	kindIVF  = 1
)

// maxDim bounds the dimensionality accepted by IndexFactory and
// ReadIndexFromBuffer.
const maxDim = 1 << 20

// ErrClosed is returned by every fallible method called on a closed index.
var ErrClosed = errors.New("fakefaiss: index is closed")

// ErrNilIndex is returned by every fallible method called on a nil *IndexImpl.
var ErrNilIndex = errors.New("fakefaiss: nil index")

// SetOMPThreads is a no-op.
func SetOMPThreads(n uint) {}

// IndexImpl is the fake index. After construction (or deserialization) and
// population it is only read by the search methods, so any number of
// goroutines may search it concurrently. Mutating methods (Train, Add,
// AddWithIDs, SetNProbe, SetDirectMap) must not run concurrently with anything
// else, exactly as with the real library.
type IndexImpl struct {
	kind      int
	d         int
	metric    int
	nlist     int
	nprobe    int32
	trained   bool
	directMap bool
	// dmStart is the number of vectors that were already stored when the
	// direct map was enabled; those are unknown to Reconstruct on IVF.
	dmStart   int
	centroids []float32 // nlist*d once trained
	ids       []int64
	vecs      []float32 // len(ids)*d
	assign    []uint32  // IVF only: cluster of each stored vector
	lists     [][]int32 // IVF only: positions per cluster (derived)
	pos       map[int64]int32

	closed   atomic.Bool
	inflight atomic.Int64
}

// begin is the prologue of every index method op, see verif.go for the order
// of events. The caller must `defer idx.end()`.
func (idx *IndexImpl) begin(op string) error {
	if idx == nil {
		verifEnter(op)
		return ErrNilIndex
	}
	idx.inflight.Add(1)
	verifEnter(op)
	if idx.closed.Load() {
		vUsedAfterClose.Add(1)
		return ErrClosed
	}
	return verifFault(op)
}

func (idx *IndexImpl) end() {
	if idx != nil {
		idx.inflight.Add(-1)
	}
}

// live is the closed check of the cheap getters.
func (idx *IndexImpl) live() bool {
	if idx == nil {
		return false
	}
	if idx.closed.Load() {
		vUsedAfterClose.Add(1)
		return false
	}
	return true
}

// IndexFactory builds an empty index. Supported descriptions: "IDMap2,Flat"
// and "IVF<nlist>,Flat" / "IVF<nlist>,SQ8" / "IVF<nlist>,SQ4" with nlist >= 1.
func IndexFactory(d int, description string, metric int) (*IndexImpl, error) {
	if err := verifOp("IndexFactory"); err != nil {
		return nil, err
	}
	if d <= 0 || d > maxDim {
		return nil, fmt.Errorf("fakefaiss: invalid dimension %d", d)
	}
	if metric != MetricInnerProduct && metric != MetricL2 {
		return nil, fmt.Errorf("fakefaiss: unsupported metric %d", metric)
	}
	idx := &IndexImpl{d: d, metric: metric, pos: map[int64]int32{}}
	switch {
	case description == "IDMap2,Flat":
		idx.kind = kindFlat
		idx.trained = true
	case strings.HasPrefix(description, "IVF"):
		parts := strings.Split(description[3:], ",")
		if len(parts) != 2 || (parts[1] != "Flat" && parts[1] != "SQ8" && parts[1] != "SQ4") {
			return nil, fmt.Errorf("fakefaiss: could not parse index description %q", description)
		}
		for _, c := range parts[0] {
			if c < '0' || c > '9' {
				return nil, fmt.Errorf("fakefaiss: could not parse index description %q", description)
			}
		}
		nlist, err := strconv.Atoi(parts[0])
		if err != nil || nlist <= 0 || nlist > math.MaxInt32 {
			return nil, fmt.Errorf("fakefaiss: invalid nlist in index description %q", description)
		}
		idx.kind = kindIVF
		idx.nlist = nlist
		idx.nprobe = 1
	default:
		return nil, fmt.Errorf("fakefaiss: could not parse index description %q", description)
	}
	vCreated.Add(1)
	return idx, nil
}

// Close releases the index. The first Close counts in VerifClosed, further
// ones in VerifDoubleClosed. The data is deliberately kept so that a use after
// close is reported through counters and ErrClosed instead of a crash.
func (idx *IndexImpl) Close() {
	if idx == nil {
		return
	}
	verifEnter("Close")
	if !idx.closed.CompareAndSwap(false, true) {
		vDoubleClosed.Add(1)
		return
	}
	vClosed.Add(1)
	if idx.inflight.Load() > 0 {
		vClosedInUse.Add(1)
	}
}

// D returns the dimension (0 on a closed index).
func (idx *IndexImpl) D() int {
	if !idx.live() {
		return 0
	}
	return idx.d
}

// MetricType returns MetricInnerProduct or MetricL2 (0 on a closed index).
func (idx *IndexImpl) MetricType() int {
	if !idx.live() {
		return 0
	}
	return idx.metric
}

// Ntotal returns the number of stored vectors (0 on a closed index).
func (idx *IndexImpl) Ntotal() int64 {
	if !idx.live() {
		return 0
	}
	return int64(len(idx.ids))
}

// IsTrained reports whether vectors can be added: always for flat, after
// Train for IVF.
func (idx *IndexImpl) IsTrained() bool {
	if !idx.live() {
		return false
	}
	return idx.trained
}

// IsIVFIndex reports whether the index was built from an "IVF..." description.
func (idx *IndexImpl) IsIVFIndex() bool {
	if !idx.live() {
		return false
	}
	return idx.kind == kindIVF
}

// SetNProbe sets the number of clusters probed by IVF searches. The value is
// stored as given (GetNProbe returns it) and clamped to nlist at search time.
// No-op on a flat index, like the real library.
func (idx *IndexImpl) SetNProbe(nprobe int32) {
	if !idx.live() || idx.kind != kindIVF {
		return
	}
	idx.nprobe = nprobe
}

// GetNProbe returns the stored nprobe, 0 for a flat index.
func (idx *IndexImpl) GetNProbe() int32 {
	if !idx.live() || idx.kind != kindIVF {
		return 0
	}
	return idx.nprobe
}

// Size returns 64 + 4*(#stored floats + #centroid floats + #assignments) +
// 8*#ids for a live index and 0 for a closed one.
func (idx *IndexImpl) Size() uint64 {
	if !idx.live() {
		return 0
	}
	return 64 + 4*uint64(len(idx.vecs)) + 8*uint64(len(idx.ids)) +
		4*uint64(len(idx.centroids)) + 4*uint64(len(idx.assign))
}

// SetDirectMap enables (mapType != 0) or disables (mapType == 0) the direct
// map of an IVF index. Only vectors added while it is enabled can be
// reconstructed. Fails on a flat index ("index is not of ivf type").
func (idx *IndexImpl) SetDirectMap(mapType int) error {
	err := idx.begin("SetDirectMap")
	defer idx.end()
	if err != nil {
		return err
	}
	if idx.kind != kindIVF {
		return fmt.Errorf("index is not of ivf type")
	}
	if mapType == 0 {
		idx.directMap = false
		idx.dmStart = 0
		return nil
	}
	if !idx.directMap {
		idx.directMap = true
		idx.dmStart = len(idx.ids)
	}
	return nil
}

// Train trains an IVF index (see package comment); no-op on a flat index or
// on an already trained one.
func (idx *IndexImpl) Train(x []float32) error {
	err := idx.begin("Train")
	defer idx.end()
	if err != nil {
		return err
	}
	if len(x)%idx.d != 0 {
		return fmt.Errorf("fakefaiss: training data length %d is not a multiple of d=%d", len(x), idx.d)
	}
	if idx.kind != kindIVF || idx.trained {
		return nil
	}
	nx := len(x) / idx.d
	if nx < idx.nlist {
		return fmt.Errorf("fakefaiss: Error: 'nx >= k' failed: Number of training points (%d) "+
			"should be at least as large as number of clusters (%d)", nx, idx.nlist)
	}
	idx.centroids = append([]float32(nil), x[:idx.nlist*idx.d]...)
	idx.lists = make([][]int32, idx.nlist)
	idx.trained = true
	return nil
}

// Add stores the vectors under sequential ids Ntotal(), Ntotal()+1, ...
func (idx *IndexImpl) Add(x []float32) error {
	err := idx.begin("Add")
	defer idx.end()
	if err != nil {
		return err
	}
	if len(x)%idx.d != 0 {
		return fmt.Errorf("fakefaiss: data length %d is not a multiple of d=%d", len(x), idx.d)
	}
	n := len(x) / idx.d
	xids := make([]int64, n)
	for i := range xids {
		xids[i] = int64(len(idx.ids) + i)
	}
	return idx.add(x, xids)
}

// AddWithIDs stores the vectors under the given ids. len(x) must equal
// len(xids)*D. Adding an id twice stores both vectors.
func (idx *IndexImpl) AddWithIDs(x []float32, xids []int64) error {
	err := idx.begin("AddWithIDs")
	defer idx.end()
	if err != nil {
		return err
	}
	return idx.add(x, xids)
}

func (idx *IndexImpl) add(x []float32, xids []int64) error {
	if len(x) != len(xids)*idx.d {
		return fmt.Errorf("fakefaiss: got %d floats for %d ids of dimension %d", len(x), len(xids), idx.d)
	}
	if !idx.trained {
		return fmt.Errorf("fakefaiss: Error: 'is_trained' failed: index not trained")
	}
	if len(idx.ids)+len(xids) > math.MaxInt32 {
		return fmt.Errorf("fakefaiss: too many vectors")
	}
	for i, id := range xids {
		v := x[i*idx.d : (i+1)*idx.d]
		p := int32(len(idx.ids))
		idx.ids = append(idx.ids, id)
		idx.vecs = append(idx.vecs, v...)
		idx.pos[id] = p
		if idx.kind == kindIVF {
			c := idx.nearestCentroid(v)
			idx.assign = append(idx.assign, uint32(c))
			idx.lists[c] = append(idx.lists[c], p)
		}
	}
	return nil
}

// Reconstruct returns a copy of the vector stored under key.
func (idx *IndexImpl) Reconstruct(key int64) ([]float32, error) {
	err := idx.begin("Reconstruct")
	defer idx.end()
	if err != nil {
		return nil, err
	}
	rv := make([]float32, idx.d)
	if err := idx.reconstruct(key, rv); err != nil {
		return nil, err
	}
	return rv, nil
}

// ReconstructBatch copies the vectors of keys, in order, into recons (which
// must hold at least len(keys)*D floats) and returns recons itself, unsliced,
// like the real library.
func (idx *IndexImpl) ReconstructBatch(keys []int64, recons []float32) ([]float32, error) {
	err := idx.begin("ReconstructBatch")
	defer idx.end()
	if err != nil {
		return nil, err
	}
	if len(recons) < len(keys)*idx.d {
		return nil, fmt.Errorf("fakefaiss: reconstruction buffer holds %d floats, need %d",
			len(recons), len(keys)*idx.d)
	}
	for i, key := range keys {
		if err := idx.reconstruct(key, recons[i*idx.d:(i+1)*idx.d]); err != nil {
			return nil, err
		}
	}
	return recons, nil
}

func (idx *IndexImpl) reconstruct(key int64, out []float32) error {
	if idx.kind == kindIVF && !idx.directMap {
		return fmt.Errorf("fakefaiss: direct map not initialized")
	}
	p, ok := idx.pos[key]
	if !ok {
		return fmt.Errorf("fakefaiss: key %d not found", key)
	}
	if idx.kind == kindIVF && int(p) < idx.dmStart {
		return fmt.Errorf("fakefaiss: direct map not initialized when key %d was added", key)
	}
	copy(out, idx.vecs[int(p)*idx.d:(int(p)+1)*idx.d])
	return nil
}

// Search is SearchWithoutIDs with no exclusion and no params.
func (idx *IndexImpl) Search(x []float32, k int64) (distances []float32, labels []int64, err error) {
	err = idx.begin("Search")
	defer idx.end()
	if err != nil {
		return nil, nil, err
	}
	return idx.search(x, k, nil, nil, nil)
}

// SearchWithoutIDs searches for the k best vectors whose id is not in exclude.
func (idx *IndexImpl) SearchWithoutIDs(x []float32, k int64, exclude []int64,
	params json.RawMessage) ([]float32, []int64, error) {
	err := idx.begin("SearchWithoutIDs")
	defer idx.end()
	if err != nil {
		return nil, nil, err
	}
	var sel *idSet
	if len(exclude) > 0 {
		sel = newIDSet(exclude, true)
	}
	return idx.search(x, k, sel, nil, params)
}

// SearchWithIDs searches for the k best vectors whose id is in include.
func (idx *IndexImpl) SearchWithIDs(x []float32, k int64, include []int64,
	params json.RawMessage) ([]float32, []int64, error) {
	err := idx.begin("SearchWithIDs")
	defer idx.end()
	if err != nil {
		return nil, nil, err
	}
	return idx.search(x, k, newIDSet(include, false), nil, params)
}

// ObtainClusterVectorCountsFromIVFIndex maps cluster id -> how many of vecIDs
// are assigned to that cluster. Ids listed several times count several times.
func (idx *IndexImpl) ObtainClusterVectorCountsFromIVFIndex(vecIDs []int64) (map[int64]int64, error) {
	err := idx.begin("ObtainClusterVectorCountsFromIVFIndex")
	defer idx.end()
	if err != nil {
		return nil, err
	}
	if idx.kind != kindIVF {
		return nil, fmt.Errorf("index is not an IVF index")
	}
	rv := make(map[int64]int64)
	for _, id := range vecIDs {
		p, ok := idx.pos[id]
		if !ok {
			return nil, fmt.Errorf("fakefaiss: key %d not found", id)
		}
		rv[int64(idx.assign[p])]++
	}
	return rv, nil
}

// ObtainClustersWithDistancesFromIVFIndex returns centroidIDs ordered by
// decreasing proximity of the centroid to the single query x (increasing
// squared L2 distance, or decreasing dot product for the inner product
// metric; ties by ascending centroid id) together with those distances.
func (idx *IndexImpl) ObtainClustersWithDistancesFromIVFIndex(x []float32, centroidIDs []int64) (
	[]int64, []float32, error) {
	err := idx.begin("ObtainClustersWithDistancesFromIVFIndex")
	defer idx.end()
	if err != nil {
		return nil, nil, err
	}
	if idx.kind != kindIVF {
		return nil, nil, fmt.Errorf("index is not an IVF index")
	}
	if len(x) != idx.d {
		return nil, nil, fmt.Errorf("fakefaiss: query has %d floats, want exactly d=%d", len(x), idx.d)
	}
	if !idx.trained {
		return nil, nil, fmt.Errorf("fakefaiss: index not trained")
	}
	cands := make([]cand, 0, len(centroidIDs))
	for i, c := range centroidIDs {
		if c < 0 || c >= int64(idx.nlist) {
			return nil, nil, fmt.Errorf("fakefaiss: centroid id %d out of range [0,%d)", c, idx.nlist)
		}
		cands = append(cands, cand{dist: idx.dist(x, idx.centroid(int(c))), id: c, pos: int32(i)})
	}
	idx.sortCands(cands)
	ids := make([]int64, len(cands))
	dis := make([]float32, len(cands))
	for i, c := range cands {
		ids[i], dis[i] = c.id, c.dist
	}
	return ids, dis, nil
}

// SearchClustersFromIVFIndex searches, for the single query x, only the first
// minEligibleCentroids (clamped to [0, len(eligibleCentroidIDs)]) clusters of
// eligibleCentroidIDs, keeping only ids accepted by selector. centroidDis is
// ignored. The selector must come from NewIDSelectorBatch / NewIDSelectorNot
// and must not have been deleted.
func (idx *IndexImpl) SearchClustersFromIVFIndex(selector Selector, eligibleCentroidIDs []int64,
	minEligibleCentroids int, k int64, x, centroidDis []float32, params json.RawMessage) (
	[]float32, []int64, error) {
	err := idx.begin("SearchClustersFromIVFIndex")
	defer idx.end()
	if err != nil {
		return nil, nil, err
	}
	if idx.kind != kindIVF {
		return nil, nil, fmt.Errorf("index is not an IVF index")
	}
	var set *idSet
	switch s := selector.(type) {
	case *IDSelector:
		if s != nil {
			set = &s.idSet
		}
	case *IDSelectorNot:
		if s != nil {
			set = &s.idSet
		}
	}
	if set == nil {
		return nil, nil, fmt.Errorf("fakefaiss: nil or foreign selector")
	}
	if set.deleted.Load() {
		vSelMisuse.Add(1)
		return nil, nil, fmt.Errorf("fakefaiss: selector used after Delete")
	}
	if len(x) != idx.d {
		return nil, nil, fmt.Errorf("fakefaiss: query has %d floats, want exactly d=%d", len(x), idx.d)
	}
	n := minEligibleCentroids
	if n > len(eligibleCentroidIDs) {
		n = len(eligibleCentroidIDs)
	}
	if n < 0 {
		n = 0
	}
	clusters := make([]int, 0, n)
	for _, c := range eligibleCentroidIDs[:n] {
		if c < 0 || c >= int64(idx.nlist) {
			return nil, nil, fmt.Errorf("fakefaiss: centroid id %d out of range [0,%d)", c, idx.nlist)
		}
		clusters = append(clusters, int(c))
	}
	return idx.search(x, k, set, clusters, params)
}

// ---------------------------------------------------------------------------
// search core

type cand struct {
	dist float32
	id   int64
	pos  int32
}

// l2 is the squared Euclidean distance, see the package comment.
func l2(q, v []float32) float32 {
	var sum float32
	for i := range q {
		d := q[i] - v[i]
		sum += float32(d * d)
	}
	return sum
}

// dot is the inner product, see the package comment.
func dot(q, v []float32) float32 {
	var sum float32
	for i := range q {
		sum += float32(q[i] * v[i])
	}
	return sum
}

func (idx *IndexImpl) dist(q, v []float32) float32 {
	if idx.metric == MetricL2 {
		return l2(q, v)
	}
	return dot(q, v)
}

func (idx *IndexImpl) centroid(c int) []float32 {
	return idx.centroids[c*idx.d : (c+1)*idx.d]
}

// better reports whether candidate a ranks strictly before b.
func (idx *IndexImpl) better(a, b cand) bool {
	an, bn := a.dist != a.dist, b.dist != b.dist
	if an != bn {
		return bn
	}
	if !an && a.dist != b.dist {
		if idx.metric == MetricL2 {
			return a.dist < b.dist
		}
		return a.dist > b.dist
	}
	if a.id != b.id {
		return a.id < b.id
	}
	return a.pos < b.pos
}

func (idx *IndexImpl) sortCands(cands []cand) {
	sort.Slice(cands, func(i, j int) bool { return idx.better(cands[i], cands[j]) })
}

func (idx *IndexImpl) nearestCentroid(v []float32) int {
	best := cand{dist: idx.dist(v, idx.centroid(0)), id: 0}
	for c := 1; c < idx.nlist; c++ {
		cur := cand{dist: idx.dist(v, idx.centroid(c)), id: int64(c)}
		if idx.better(cur, best) {
			best = cur
		}
	}
	return int(best.id)
}

// probeClusters returns the min(nprobe, nlist) clusters nearest to q.
func (idx *IndexImpl) probeClusters(q []float32) ([]int, error) {
	if idx.nprobe <= 0 {
		return nil, fmt.Errorf("fakefaiss: Error: 'nprobe > 0' failed")
	}
	if !idx.trained {
		return nil, nil
	}
	cands := make([]cand, idx.nlist)
	for c := range cands {
		cands[c] = cand{dist: idx.dist(q, idx.centroid(c)), id: int64(c)}
	}
	idx.sortCands(cands)
	n := int(idx.nprobe)
	if n > idx.nlist {
		n = idx.nlist
	}
	rv := make([]int, n)
	for i := range rv {
		rv[i] = int(cands[i].id)
	}
	return rv, nil
}

// search runs one top-k query per d-sized chunk of x. sel == nil accepts every
// id. clusters != nil (IVF only) overrides the nprobe based cluster choice.
func (idx *IndexImpl) search(x []float32, k int64, sel *idSet, clusters []int,
	params json.RawMessage) ([]float32, []int64, error) {
	if len(params) > 0 && !json.Valid(params) {
		return nil, nil, fmt.Errorf("fakefaiss: search params are not valid JSON")
	}
	if len(x) == 0 || len(x)%idx.d != 0 {
		return nil, nil, fmt.Errorf("fakefaiss: query has %d floats, want a positive multiple of d=%d",
			len(x), idx.d)
	}
	if k <= 0 {
		return []float32{}, []int64{}, nil
	}
	nq := len(x) / idx.d
	if k > int64(math.MaxInt32) || int64(nq)*k > int64(math.MaxInt32) {
		return nil, nil, fmt.Errorf("fakefaiss: k=%d is too large", k)
	}
	pad := float32(math.MaxFloat32)
	if idx.metric == MetricInnerProduct {
		pad = -math.MaxFloat32
	}
	distances := make([]float32, 0, nq*int(k))
	labels := make([]int64, 0, nq*int(k))
	var cands []cand
	for qi := 0; qi < nq; qi++ {
		q := x[qi*idx.d : (qi+1)*idx.d]
		cands = cands[:0]
		consider := func(p int32) {
			id := idx.ids[p]
			if sel != nil && !sel.accepts(id) {
				return
			}
			v := idx.vecs[int(p)*idx.d : (int(p)+1)*idx.d]
			cands = append(cands, cand{dist: idx.dist(q, v), id: id, pos: p})
		}
		if idx.kind == kindIVF {
			probe := clusters
			if probe == nil {
				var err error
				probe, err = idx.probeClusters(q)
				if err != nil {
					return nil, nil, err
				}
			}
			seen := make(map[int]struct{}, len(probe))
			for _, c := range probe {
				if _, dup := seen[c]; dup || c >= len(idx.lists) {
					continue
				}
				seen[c] = struct{}{}
				for _, p := range idx.lists[c] {
					consider(p)
				}
			}
		} else {
			for p := range idx.ids {
				consider(int32(p))
			}
		}
		idx.sortCands(cands)
		for i := 0; i < int(k); i++ {
			if i < len(cands) {
				distances = append(distances, cands[i].dist)
				labels = append(labels, cands[i].id)
			} else {
				distances = append(distances, pad)
				labels = append(labels, -1)
			}
		}
	}
	return distances, labels, nil
}

// ---------------------------------------------------------------------------
// selectors

// Selector is the id filter handed to SearchClustersFromIVFIndex. (The real
// interface additionally has a cgo-typed Get method.)
type Selector interface {
	Delete()
}

type idSet struct {
	set     map[int64]struct{}
	not     bool
	deleted atomic.Bool
}

func newIDSet(ids []int64, not bool) *idSet {
	s := &idSet{set: make(map[int64]struct{}, len(ids)), not: not}
	s.fill(ids)
	return s
}

func (s *idSet) fill(ids []int64) {
	for _, id := range ids {
		s.set[id] = struct{}{}
	}
}

func (s *idSet) accepts(id int64) bool {
	_, in := s.set[id]
	return in != s.not
}

func (s *idSet) delete() {
	if s.deleted.CompareAndSwap(false, true) {
		vSelDeleted.Add(1)
	} else {
		vSelMisuse.Add(1)
	}
}

// IDSelector accepts exactly the ids it was built from.
type IDSelector struct{ idSet }

// Delete releases the selector.
func (s *IDSelector) Delete() {
	if s != nil {
		s.idSet.delete()
	}
}

// IDSelectorNot accepts every id except the ones it was built from.
type IDSelectorNot struct{ idSet }

// Delete releases the selector.
func (s *IDSelectorNot) Delete() {
	if s != nil {
		s.idSet.delete()
	}
}

// NewIDSelectorBatch creates a selector accepting only the listed ids (the ids
// are copied). An empty list is allowed and accepts nothing.
func NewIDSelectorBatch(indices []int64) (Selector, error) {
	if err := verifOp("NewIDSelectorBatch"); err != nil {
		return nil, err
	}
	s := &IDSelector{}
	s.set = make(map[int64]struct{}, len(indices))
	s.fill(indices)
	vSelCreated.Add(1)
	return s, nil
}

// NewIDSelectorNot creates a selector accepting every id except the listed
// ones (the ids are copied). An empty list is allowed and accepts everything.
func NewIDSelectorNot(exclude []int64) (Selector, error) {
	if err := verifOp("NewIDSelectorNot"); err != nil {
		return nil, err
	}
	s := &IDSelectorNot{}
	s.set = make(map[int64]struct{}, len(exclude))
	s.not = true
	s.fill(exclude)
	vSelCreated.Add(1)
	return s, nil
}
