#!/usr/bin/env python3
"""Regenerates MANIFEST.json from props.py and properties.jsonl."""
import json, os, subprocess, sys
ROOT = os.path.dirname(os.path.abspath(__file__))
sys.path.insert(0, ROOT)
from props import PROPS
try:
    from props import NOT_APPLICABLE
except ImportError:
    NOT_APPLICABLE = {}
ids = [json.loads(l)["id"] for l in open(os.path.join(ROOT, "properties.jsonl"))]
hook_commits = []
try:
    out = subprocess.run(["git", "-C", "/repo", "log", "--format=%H %s"], capture_output=True, text=True).stdout
    for line in out.splitlines():
        h, s = line.split(" ", 1)
        if s.startswith("verif hooks"):
            hook_commits.append(h)
except Exception:
    pass
checks, na = [], []
for pid in ids:
    if pid in PROPS:
        p = PROPS[pid]
        c = {
            "property_id": pid,
            "quick_cmd": f"./check {pid} quick",
            "thorough_cmd": f"./check {pid} thorough",
            "evidence_file": f"/verif/evidence/{pid}.json",
            "replay_cmd_template": f"./check {pid} --replay {{path}}",
            "engine": "rapid-harness",
            "level_claimed": {"category": p["level"], "text": p["level_text"], "design_ref": p.get("design_ref", f"DESIGN.md §4 {pid}")},
            "level_note": p["level_note"],
            "technique": p["technique"],
        }
        checks.append(c)
    else:
        na.append({"property_id": pid, "reason": NOT_APPLICABLE.get(pid, "check not built yet in this session (planned, see DESIGN.md §4)")})
m = {
    "version": 1,
    "setup_cmd": "./setup.sh",
    "hooks": {
        "guard": "verif",
        "enable": "go build tag `verif` (checks compile /repo through the harness module's replace directive with -tags verif or -tags verif,vectors)",
        "baseline_off_cmd": "cd /repo && GOFLAGS=-mod=mod GOPROXY=off GOSUMDB=off GOTOOLCHAIN=local go test -json -vet=off -count=1 -timeout 25m ./...",
        "source_commits": hook_commits,
        "add_only": True,
    },
    "engines": [
        {"name": "rapid-harness", "path": "/verif/harness", "serves_properties": [c["property_id"] for c in checks],
         "kind_free_text": "Go module driving zapx built from /repo: pgregory.net/rapid v1.3.0 generators + reference model + independent v16 reader + pure-Go fake vector engine; python3 driver ./check"},
    ],
    "checks": checks,
    "not_applicable": na,
    "notes": "Property-based testing and fuzzing only. Every check rebuilds zapx from /repo's working tree (go test -c through a replace directive). VERIF_SEED selects the rapid seeds. Exit 2 = cannot decide (compile error, timeout).",
}
json.dump(m, open(os.path.join(ROOT, "MANIFEST.json"), "w"), indent=1)
print("MANIFEST.json:", len(checks), "checks,", len(na), "not_applicable")
