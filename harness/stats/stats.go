// Package stats collects what a check run actually covered (evaluations,
// distinct non-trivial cases, class histogram, samples) and writes it as JSON
// for the driver to merge into the evidence file.
package stats

import (
	"encoding/json"
	"fmt"
	"hash/fnv"
	"os"
	"sort"
	"sync"
)

type Collector struct {
	mu          sync.Mutex
	Property    string           `json:"property"`
	Stage       string           `json:"stage"`
	Evaluations int64            `json:"evaluations"`
	NonTrivial  map[uint64]bool  `json:"-"`
	Hashes      []uint64         `json:"nontrivial_hashes"`
	Classes     map[string]int64 `json:"classes"`
	Samples     []any            `json:"samples"`
	Known       map[string]int64 `json:"known,omitempty"`
	Excluded    int64            `json:"excluded,omitempty"`
	Exhaustive  *bool            `json:"exhaustive,omitempty"`
	Extra       map[string]any   `json:"extra,omitempty"`
	frozen      bool
	maxSamples  int
}

func New(property, stage string) *Collector {
	return &Collector{Property: property, Stage: stage, NonTrivial: map[uint64]bool{}, Classes: map[string]int64{}, Known: map[string]int64{}, Extra: map[string]any{}, maxSamples: 4}
}

// Freeze stops counting (called at the first failure so that shrink re-runs are not counted).
func (c *Collector) Freeze() {
	c.mu.Lock()
	c.frozen = true
	c.mu.Unlock()
}

func (c *Collector) Frozen() bool {
	c.mu.Lock()
	defer c.mu.Unlock()
	return c.frozen
}

func HashJSON(v any) uint64 {
	b, _ := json.Marshal(v)
	h := fnv.New64a()
	h.Write(b)
	return h.Sum64()
}

// Case records one executed case. sample is stored (truncated by the caller) for the first few non-trivial cases.
func (c *Collector) Case(caseVal any, nonTrivial bool, classes []string, sample func() any) {
	c.mu.Lock()
	defer c.mu.Unlock()
	if c.frozen {
		return
	}
	c.Evaluations++
	for _, cl := range classes {
		c.Classes[cl]++
	}
	if nonTrivial {
		h := HashJSON(caseVal)
		if !c.NonTrivial[h] {
			c.NonTrivial[h] = true
			if len(c.Samples) < c.maxSamples && sample != nil {
				c.Samples = append(c.Samples, sample())
			}
		}
	}
}

// CaseHash is like Case with a precomputed hash key.
func (c *Collector) CaseHash(h uint64, nonTrivial bool, classes []string, sample func() any) {
	c.mu.Lock()
	defer c.mu.Unlock()
	if c.frozen {
		return
	}
	c.Evaluations++
	for _, cl := range classes {
		c.Classes[cl]++
	}
	if nonTrivial && !c.NonTrivial[h] {
		c.NonTrivial[h] = true
		if len(c.Samples) < c.maxSamples && sample != nil {
			c.Samples = append(c.Samples, sample())
		}
	}
}

func (c *Collector) Class(name string, n int64) {
	c.mu.Lock()
	if !c.frozen {
		c.Classes[name] += n
	}
	c.mu.Unlock()
}

func (c *Collector) KnownHit(sig string) {
	c.mu.Lock()
	c.Known[sig]++
	c.mu.Unlock()
}

func (c *Collector) SetExhaustive(b bool) {
	c.mu.Lock()
	c.Exhaustive = &b
	c.mu.Unlock()
}

func (c *Collector) SetExtra(k string, v any) {
	c.mu.Lock()
	c.Extra[k] = v
	c.mu.Unlock()
}

// Write dumps the collector to the path in VERIF_STATS_OUT (if set).
func (c *Collector) Write() {
	path := os.Getenv("VERIF_STATS_OUT")
	if path == "" {
		return
	}
	if os.Getenv("VERIF_STATS_PERPID") != "" {
		// native fuzzing: every worker process writes its own collector
		path = fmt.Sprintf("%s.%d", path, os.Getpid())
	}
	c.mu.Lock()
	defer c.mu.Unlock()
	c.Hashes = c.Hashes[:0]
	for h := range c.NonTrivial {
		c.Hashes = append(c.Hashes, h)
	}
	sort.Slice(c.Hashes, func(i, j int) bool { return c.Hashes[i] < c.Hashes[j] })
	b, err := json.Marshal(c)
	if err != nil {
		panic(err)
	}
	if err := os.WriteFile(path, b, 0o644); err != nil {
		panic(err)
	}
}
