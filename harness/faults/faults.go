// Package faults provides write-fault injectors.
package faults

import (
	"errors"
	"os"
	"os/signal"
	"sync"
	"syscall"
)

// FailingWriter accepts Limit bytes and then fails every write.
type FailingWriter struct {
	Limit   int
	Written int
}

var ErrInjected = errors.New("faults: injected write failure")

func (w *FailingWriter) Write(p []byte) (int, error) {
	room := w.Limit - w.Written
	if room >= len(p) {
		w.Written += len(p)
		return len(p), nil
	}
	if room < 0 {
		room = 0
	}
	w.Written += room
	return room, ErrInjected
}

// TransientWriter accepts everything except that the write crossing offset At is cut there and
// fails once with Err (a short write with an error); later writes succeed again. Buf collects
// what was accepted.
type TransientWriter struct {
	At     int
	Err    error
	Buf    []byte
	failed bool
}

func (w *TransientWriter) Write(p []byte) (int, error) {
	if !w.failed && len(w.Buf)+len(p) > w.At {
		w.failed = true
		n := w.At - len(w.Buf)
		if n < 0 {
			n = 0
		}
		w.Buf = append(w.Buf, p[:n]...)
		return n, w.Err
	}
	w.Buf = append(w.Buf, p...)
	return len(p), nil
}

// Failed reports whether the one failure was delivered.
func (w *TransientWriter) Failed() bool { return w.failed }

var once sync.Once
var mu sync.Mutex

// WithFileSizeLimit runs f while the process' RLIMIT_FSIZE soft limit is n
// bytes: the kernel accepts exactly n bytes per file and fails the rest with
// EFBIG (SIGXFSZ is ignored). The limit is process-wide: nothing else may
// write files while f runs. The previous limit is restored afterwards.
func WithFileSizeLimit(n uint64, f func()) error {
	mu.Lock()
	defer mu.Unlock()
	once.Do(func() { signal.Ignore(syscall.SIGXFSZ) })
	var old syscall.Rlimit
	if err := syscall.Getrlimit(syscall.RLIMIT_FSIZE, &old); err != nil {
		return err
	}
	lim := old
	lim.Cur = n
	if err := syscall.Setrlimit(syscall.RLIMIT_FSIZE, &lim); err != nil {
		return err
	}
	defer syscall.Setrlimit(syscall.RLIMIT_FSIZE, &old)
	f()
	return nil
}

// SelfTest verifies that the file-size limit really produces short writes in this environment.
func SelfTest(dir string) error {
	path := dir + "/faults-selftest"
	defer os.Remove(path)
	var werr error
	var n int
	err := WithFileSizeLimit(10, func() {
		f, e := os.Create(path)
		if e != nil {
			werr = e
			return
		}
		n, werr = f.Write(make([]byte, 25))
		f.Close()
	})
	if err != nil {
		return err
	}
	if werr == nil || n != 10 {
		return errors.New("faults: RLIMIT_FSIZE did not produce a short write + error")
	}
	st, e := os.Stat(path)
	if e != nil || st.Size() != 10 {
		return errors.New("faults: unexpected file size after limited write")
	}
	return nil
}
