package indep

import (
	"bytes"
	"encoding/binary"
	"encoding/json"
	"hash/crc32"
	"math"
	"math/rand"
	"reflect"
	"strings"
	"testing"

	"github.com/RoaringBitmap/roaring/v2"
	"github.com/RoaringBitmap/roaring/v2/roaring64"
	"github.com/blevesearch/vellum"
	"github.com/golang/snappy"
)

// ---------------------------------------------------------------------------
// hand assembly helpers (written from the layout description only)
// ---------------------------------------------------------------------------

type fileBuilder struct {
	buf bytes.Buffer
}

func (b *fileBuilder) off() uint64 { return uint64(b.buf.Len()) }

func (b *fileBuilder) raw(p []byte) { b.buf.Write(p) }

func (b *fileBuilder) uv(vs ...uint64) {
	for _, v := range vs {
		b.buf.Write(uv(v))
	}
}

func (b *fileBuilder) u64(v uint64) {
	var t [8]byte
	binary.BigEndian.PutUint64(t[:], v)
	b.buf.Write(t[:])
}

func (b *fileBuilder) u32(v uint32) {
	var t [4]byte
	binary.BigEndian.PutUint32(t[:], v)
	b.buf.Write(t[:])
}

func (b *fileBuilder) u16(v uint16) {
	var t [2]byte
	binary.BigEndian.PutUint16(t[:], v)
	b.buf.Write(t[:])
}

// footer appends the footer and returns the finished file.
func (b *fileBuilder) footer(numDocs, storedIdx, fieldsIdx, sectionsIdx, dvOff uint64, chunkMode, version uint32) []byte {
	b.u64(numDocs)
	b.u64(storedIdx)
	b.u64(fieldsIdx)
	b.u64(sectionsIdx)
	b.u64(dvOff)
	b.u32(chunkMode)
	b.u32(version)
	b.u32(crc32.ChecksumIEEE(b.buf.Bytes()))
	return append([]byte(nil), b.buf.Bytes()...)
}

func uv(v uint64) []byte {
	var t [binary.MaxVarintLen64]byte
	return append([]byte(nil), t[:binary.PutUvarint(t[:], v)]...)
}

func sv(v int64) []byte {
	var t [binary.MaxVarintLen64]byte
	return append([]byte(nil), t[:binary.PutVarint(t[:], v)]...)
}

func cat(parts ...[]byte) []byte {
	var out []byte
	for _, p := range parts {
		out = append(out, p...)
	}
	return out
}

func uvs(vs ...uint64) []byte {
	var out []byte
	for _, v := range vs {
		out = append(out, uv(v)...)
	}
	return out
}

type kv struct {
	k string
	v uint64
}

func buildFST(t testing.TB, pairs []kv) []byte {
	t.Helper()
	var buf bytes.Buffer
	b, err := vellum.New(&buf, nil)
	if err != nil {
		t.Fatal(err)
	}
	for _, p := range pairs {
		if err := b.Insert([]byte(p.k), p.v); err != nil {
			t.Fatal(err)
		}
	}
	if err := b.Close(); err != nil {
		t.Fatal(err)
	}
	return buf.Bytes()
}

func roaringBytes(t testing.TB, docs ...uint32) []byte {
	t.Helper()
	bm := roaring.New()
	bm.AddMany(docs)
	b, err := bm.ToBytes()
	if err != nil {
		t.Fatal(err)
	}
	return b
}

func oneHit(doc, normBits uint64) uint64 {
	return 0x8000000000000000 | normBits<<31 | doc
}

// chunkedStream serializes a chunked int stream.
func chunkedStream(chunks ...[]byte) []byte {
	out := uv(uint64(len(chunks)))
	var end uint64
	for _, c := range chunks {
		end += uint64(len(c))
		out = append(out, uv(end)...)
	}
	for _, c := range chunks {
		out = append(out, c...)
	}
	return out
}

// locHit serializes the location records of one hit with their length prefix.
func locHit(records ...[]byte) []byte {
	all := cat(records...)
	return cat(uv(uint64(len(all))), all)
}

// storedRecord serializes one stored record.
func storedRecord(id string, metaGroups []byte, uncompressed []byte) []byte {
	meta := cat(uv(uint64(len(id))), metaGroups)
	data := cat([]byte(id), snappy.Encode(nil, uncompressed))
	return cat(uv(uint64(len(meta))), uv(uint64(len(data))), meta, data)
}

const maxU64 = uint64(math.MaxUint64)

// ---------------------------------------------------------------------------
// the tiny text segment
// ---------------------------------------------------------------------------

// buildTextFile assembles: 3 docs, chunkMode 2, fields _id and body.
//
//	doc 0: _id "a", body "cat cat" (stored)
//	doc 1: _id "b", body "dog"     (nothing stored)
//	doc 2: _id "c", body ["cat"]   (stored twice, with array positions)
func buildTextFile(t testing.TB, version uint32) []byte {
	t.Helper()
	var b fileBuilder

	// --- stored records (doc 0 lives at offset 0) ---
	var storedOffs []uint64
	storedOffs = append(storedOffs, b.off())
	b.raw(storedRecord("a", uvs(1, 't', 0, 7, 0), []byte("cat cat")))
	storedOffs = append(storedOffs, b.off())
	b.raw(storedRecord("b", nil, nil))
	storedOffs = append(storedOffs, b.off())
	b.raw(storedRecord("c", cat(uvs(1, 't', 0, 3, 1, 0), uvs(1, 'n', 3, 2, 2, 1, 2)), []byte("cat\xff\x01")))

	// --- stored index ---
	storedIdx := b.off()
	for _, o := range storedOffs {
		b.u64(o)
	}

	// --- body: freq/norm stream of "cat" (docs 0 and 2, chunk size 2) ---
	fnOff := b.off()
	b.raw(chunkedStream(
		uvs(2<<1|1, 2), // doc 0: freq 2, has locs, norm bits 2
		uvs(1<<1|1, 1), // doc 2: freq 1, has locs, norm bits 1
	))
	// --- body: location stream of "cat" ---
	locOff := b.off()
	b.raw(chunkedStream(
		locHit(uvs(1, 1, 0, 3, 0), uvs(1, 2, 4, 7, 2, 5, 6)),
		locHit(uvs(1, 1, 0, 3, 1, 0)),
	))
	// --- body: postings record of "cat" ---
	catPostings := b.off()
	rb := roaringBytes(t, 0, 2)
	b.uv(fnOff, locOff, uint64(len(rb)))
	b.raw(rb)
	// --- body: dictionary ---
	bodyDict := b.off()
	fst := buildFST(t, []kv{{"cat", catPostings}, {"dog", oneHit(1, 5)}})
	b.uv(uint64(len(fst)))
	b.raw(fst)
	// --- body: doc values, two chunks ---
	dvStart := b.off()
	chunk0 := cat(uvs(2, 0, 4, 1, 8), snappy.Encode(nil, []byte("cat\xffdog\xff")))
	chunk1 := cat(uvs(1, 2, 4), snappy.Encode(nil, []byte("cat\xff")))
	b.raw(chunk0)
	b.raw(chunk1)
	offs := uvs(uint64(len(chunk0)), uint64(len(chunk0)+len(chunk1)))
	b.raw(offs)
	b.u64(uint64(len(offs)))
	b.u64(2)
	dvEnd := b.off()
	// --- body: inverted text section record ---
	bodySec := b.off()
	b.uv(dvStart, dvEnd, bodyDict)

	// --- _id: dictionary of 1-hit entries, no doc values ---
	idDict := b.off()
	fst = buildFST(t, []kv{{"a", oneHit(0, 1)}, {"b", oneHit(1, 1)}, {"c", oneHit(2, 1)}})
	b.uv(uint64(len(fst)))
	b.raw(fst)
	idSec := b.off()
	b.uv(maxU64, maxU64, idDict)

	// --- sections info: field records ---
	fieldsIdx := b.off()
	idRec := b.off()
	b.uv(3)
	b.raw([]byte("_id"))
	b.uv(3)
	b.u16(1) // vector: none
	b.u64(0)
	b.u16(0) // inverted text
	b.u64(idSec)
	b.u16(2) // synonym: none
	b.u64(0)
	bodyRec := b.off()
	b.uv(4)
	b.raw([]byte("body"))
	b.uv(1)
	b.u16(0)
	b.u64(bodySec)

	// --- sections index ---
	sectionsIdx := b.off()
	b.uv(2)
	b.u64(idRec)
	b.u64(bodyRec)

	return b.footer(3, storedIdx, fieldsIdx, sectionsIdx, dvStart, 2, version)
}

func oneHitTerm(term string, doc, norm uint64) Term {
	return Term{Term: []byte(term), Hits: []Hit{{Doc: doc, Freq: 1, NormBits: norm, HasNorm: true, OneHit: true}}}
}

func dumpJSON(v interface{}) string {
	b, err := json.MarshalIndent(v, "", " ")
	if err != nil {
		return err.Error()
	}
	return string(b)
}

func TestDecodeTextFile(t *testing.T) {
	data := buildTextFile(t, 16)
	f, err := Decode(data)
	if err != nil {
		t.Fatalf("Decode: %v", err)
	}
	if !f.CRCOK {
		t.Errorf("CRCOK = false, stored %#x computed %#x", f.CRC, crc32.ChecksumIEEE(data[:len(data)-4]))
	}
	if f.NumDocs != 3 || f.ChunkMode != 2 || f.Version != 16 {
		t.Errorf("footer: numDocs %d chunkMode %d version %d", f.NumDocs, f.ChunkMode, f.Version)
	}
	if f.DocValueOffset == 0 || f.StoredIndexOffset == 0 || f.SectionsIndexOffset <= f.FieldsIndexOffset {
		t.Errorf("footer offsets: %+v", []uint64{f.StoredIndexOffset, f.FieldsIndexOffset, f.SectionsIndexOffset, f.DocValueOffset})
	}

	wantFields := []FieldInfo{
		{
			Name:    "_id",
			ID:      0,
			HasDict: true,
			Terms:   []Term{oneHitTerm("a", 0, 1), oneHitTerm("b", 1, 1), oneHitTerm("c", 2, 1)},
		},
		{
			Name:    "body",
			ID:      1,
			HasDict: true,
			Terms: []Term{
				{Term: []byte("cat"), Hits: []Hit{
					{Doc: 0, Freq: 2, NormBits: 2, HasNorm: true, Locs: []Loc{
						{Field: "body", Pos: 1, Start: 0, End: 3},
						{Field: "body", Pos: 2, Start: 4, End: 7, AP: []uint64{5, 6}},
					}},
					{Doc: 2, Freq: 1, NormBits: 1, HasNorm: true, Locs: []Loc{
						{Field: "body", Pos: 1, Start: 0, End: 3, AP: []uint64{0}},
					}},
				}},
				oneHitTerm("dog", 1, 5),
			},
			HasDocValues: true,
			DocValues: map[uint64][][]byte{
				0: {[]byte("cat")},
				1: {[]byte("dog")},
				2: {[]byte("cat")},
			},
		},
	}
	if !reflect.DeepEqual(f.Fields, wantFields) {
		t.Errorf("fields mismatch\n got: %s\nwant: %s", dumpJSON(f.Fields), dumpJSON(wantFields))
	}

	wantStored := [][]StoredValue{
		{
			{Field: "_id", Typ: 't', Value: []byte("a")},
			{Field: "body", Typ: 't', Value: []byte("cat cat")},
		},
		{
			{Field: "_id", Typ: 't', Value: []byte("b")},
		},
		{
			{Field: "_id", Typ: 't', Value: []byte("c")},
			{Field: "body", Typ: 't', Value: []byte("cat"), AP: []uint64{0}},
			{Field: "body", Typ: 'n', Value: []byte{0xff, 0x01}, AP: []uint64{1, 2}},
		},
	}
	if !reflect.DeepEqual(f.Stored, wantStored) {
		t.Errorf("stored mismatch\n got: %s\nwant: %s", dumpJSON(f.Stored), dumpJSON(wantStored))
	}
}

func TestDecodeCRCMismatchIsReportedNotFatal(t *testing.T) {
	data := buildTextFile(t, 16)
	data[len(data)-1] ^= 0x01
	f, err := Decode(data)
	if err != nil {
		t.Fatalf("Decode: %v", err)
	}
	if f.CRCOK {
		t.Errorf("CRCOK = true for a damaged checksum")
	}
}

func TestDecodeRejectsOtherVersions(t *testing.T) {
	for _, v := range []uint32{0, 15, 17, 16 << 8} {
		if f, err := Decode(buildTextFile(t, v)); err == nil || f != nil {
			t.Errorf("version %d: got file %v, err %v; want an error", v, f != nil, err)
		} else if !strings.Contains(err.Error(), "version") {
			t.Errorf("version %d: error %q does not mention the version", v, err)
		}
	}
}

func TestDecodeRejectsShortFiles(t *testing.T) {
	data := buildTextFile(t, 16)
	for _, n := range []int{0, 1, FooterSize - 1} {
		if _, err := Decode(data[len(data)-n:]); err == nil {
			t.Errorf("Decode of %d bytes succeeded", n)
		}
	}
	if _, err := Decode(nil); err == nil {
		t.Errorf("Decode(nil) succeeded")
	}
}

// ---------------------------------------------------------------------------
// chunk size rule
// ---------------------------------------------------------------------------

func TestChunkSizeFor(t *testing.T) {
	cases := []struct {
		mode          uint32
		card, numDocs uint64
		want          uint64
	}{
		{1, 5, 100, 1},
		{1024, 5, 100000, 1024},
		{1025, 1024, 5000, 5000},
		{1025, 1025, 5000, 1024},
		{1026, 10, 5000, 5000},
		{1026, 1023, 5000, 5000},
		{1026, 1024, 5000, 2500},
		{1026, 3000, 5000, 1666},
	}
	for _, c := range cases {
		got, err := chunkSizeFor(c.mode, c.card, c.numDocs)
		if err != nil || got != c.want {
			t.Errorf("chunkSizeFor(%d,%d,%d) = %d, %v; want %d", c.mode, c.card, c.numDocs, got, err, c.want)
		}
	}
	if _, err := chunkSizeFor(1027, 1, 1); err == nil {
		t.Errorf("chunk mode 1027 accepted")
	}
}

// ---------------------------------------------------------------------------
// empty segment, vector and synonym sections
// ---------------------------------------------------------------------------

func TestDecodeEmptySegment(t *testing.T) {
	var b fileBuilder
	b.raw([]byte{0}) // keep offset 0 unused
	storedIdx := b.off()
	sectionsIdx := b.off()
	b.uv(1)
	b.u64(0) // the absent _id field
	data := b.footer(0, storedIdx, sectionsIdx, sectionsIdx, maxU64, 1026, 16)
	f, err := Decode(data)
	if err != nil {
		t.Fatalf("Decode: %v", err)
	}
	if len(f.Fields) != 0 || len(f.Stored) != 0 || f.NumDocs != 0 || !f.CRCOK {
		t.Errorf("unexpected content: %s", dumpJSON(f))
	}
}

func buildVecSynFile(t testing.TB) []byte {
	t.Helper()
	var b fileBuilder
	b.raw([]byte{0}) // keep offset 0 unused
	storedIdx := b.off()

	// vector section
	vecSec := b.off()
	b.uv(maxU64, maxU64, 1, 3)
	b.raw(cat(sv(7), uv(1), sv(-2), uv(0), sv(3), uv(1)))
	b.uv(4)
	b.raw([]byte("FAIS"))

	// synonym postings
	r64 := func(vals ...uint64) []byte {
		bm := roaring64.New()
		bm.AddMany(vals)
		out, err := bm.ToBytes()
		if err != nil {
			t.Fatal(err)
		}
		return out
	}
	bigOff := b.off()
	bb := r64(2<<32|0, 1<<32|0, 1<<32|5)
	b.uv(uint64(len(bb)))
	b.raw(bb)
	quickOff := b.off()
	bb = r64(3<<32 | 1)
	b.uv(uint64(len(bb)))
	b.raw(bb)
	// thesaurus
	thesOff := b.off()
	fst := buildFST(t, []kv{{"big", bigOff}, {"quick", quickOff}})
	b.uv(uint64(len(fst)))
	b.raw(fst)
	b.uv(3)
	for _, e := range []struct {
		id uint64
		s  string
	}{{3, "fast"}, {1, "large"}, {2, "huge"}} {
		b.uv(e.id, uint64(len(e.s)))
		b.raw([]byte(e.s))
	}
	synSec := b.off()
	b.uv(maxU64, maxU64, thesOff)

	// field records
	fieldsIdx := b.off()
	idRec := b.off()
	b.uv(3)
	b.raw([]byte("_id"))
	b.uv(0)
	vecRec := b.off()
	b.uv(3)
	b.raw([]byte("vec"))
	b.uv(2)
	b.u16(0)
	b.u64(0)
	b.u16(1)
	b.u64(vecSec)
	synRec := b.off()
	b.uv(3)
	b.raw([]byte("syn"))
	b.uv(1)
	b.u16(2)
	b.u64(synSec)

	sectionsIdx := b.off()
	b.uv(4)
	b.u64(idRec)
	b.u64(vecRec)
	b.u64(0) // an absent field in the middle
	b.u64(synRec)
	return b.footer(0, storedIdx, fieldsIdx, sectionsIdx, maxU64, 1026, 16)
}

func TestDecodeVectorAndSynonymSections(t *testing.T) {
	f, err := Decode(buildVecSynFile(t))
	if err != nil {
		t.Fatalf("Decode: %v", err)
	}
	want := []FieldInfo{
		{Name: "_id", ID: 0},
		{Name: "vec", ID: 1, Vector: &VectorField{
			Optimization: 1,
			Entries:      []VecEntry{{VecID: -2, Doc: 0}, {VecID: 3, Doc: 1}, {VecID: 7, Doc: 1}},
			IndexBytes:   []byte("FAIS"),
		}},
		{Name: "syn", ID: 3, HasThesaurus: true, Thesaurus: []ThesTerm{
			{Term: []byte("big"), Pairs: []SynPair{{"huge", 0}, {"large", 0}, {"large", 5}}},
			{Term: []byte("quick"), Pairs: []SynPair{{"fast", 1}}},
		}},
	}
	if !reflect.DeepEqual(f.Fields, want) {
		t.Errorf("fields mismatch\n got: %s\nwant: %s", dumpJSON(f.Fields), dumpJSON(want))
	}
}

// ---------------------------------------------------------------------------
// robustness
// ---------------------------------------------------------------------------

var fuzzStats struct{ ok, failed, recovered int }

func decodeNoPanic(t *testing.T, what string, data []byte) {
	t.Helper()
	defer func() {
		if r := recover(); r != nil {
			t.Fatalf("%s: Decode panicked: %v", what, r)
		}
	}()
	f, err := Decode(data)
	if (f == nil) == (err == nil) {
		t.Fatalf("%s: Decode returned file=%v err=%v", what, f != nil, err)
	}
	switch {
	case err == nil:
		fuzzStats.ok++
	case strings.Contains(err.Error(), "panic while decoding"):
		fuzzStats.recovered++
	default:
		fuzzStats.failed++
	}
}

func TestDecodeNeverPanics(t *testing.T) {
	oldBase := WorkBase
	WorkBase = 1 << 16
	defer func() { WorkBase = oldBase }()

	for name, orig := range map[string][]byte{
		"text":   buildTextFile(t, 16),
		"vecsyn": buildVecSynFile(t),
	} {
		// every prefix, with and without the original footer glued back on
		footer := orig[len(orig)-FooterSize:]
		for n := 0; n <= len(orig); n++ {
			decodeNoPanic(t, name+" prefix", orig[:n:n])
			decodeNoPanic(t, name+" prefix+footer", cat(orig[:n], footer))
		}
		// every single byte set to a few interesting values
		for i := range orig {
			for _, v := range []byte{0x00, 0x01, 0x7f, 0x80, 0xff, orig[i] ^ 0x01, orig[i] + 1} {
				m := append([]byte(nil), orig...)
				m[i] = v
				decodeNoPanic(t, name+" single byte", m)
			}
		}
		// random multi byte damage
		rng := rand.New(rand.NewSource(20260927))
		for iter := 0; iter < 20000; iter++ {
			m := append([]byte(nil), orig...)
			for k := 1 + rng.Intn(4); k > 0; k-- {
				i := rng.Intn(len(m))
				switch rng.Intn(3) {
				case 0:
					m[i] ^= 1 << uint(rng.Intn(8))
				case 1:
					m[i] = byte(rng.Intn(256))
				default:
					m[i] = []byte{0x00, 0xff, 0x80, 0x7f}[rng.Intn(4)]
				}
			}
			decodeNoPanic(t, name+" random", m)
		}
	}
	t.Logf("decodes: %d ok, %d rejected, %d rejected via recovered panic", fuzzStats.ok, fuzzStats.failed, fuzzStats.recovered)
}
