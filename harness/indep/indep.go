// Package indep is an independent decoder for the "zap v16" index segment
// file format. It is written only from the format documentation and a layout
// description, and deliberately shares no code with the zapx implementation:
// it exists to detect changes in what the bytes of a segment file mean.
//
// All integers called "uvarint" are encoding/binary unsigned varints, "u64" /
// "u32" / "u16" are big endian fixed width integers and every offset is
// absolute from the start of the file.
package indep

import (
	"bytes"
	"encoding/binary"
	"errors"
	"fmt"
	"hash/crc32"
	"math"
	"sort"

	"github.com/RoaringBitmap/roaring/v2"
	"github.com/RoaringBitmap/roaring/v2/roaring64"
	"github.com/blevesearch/vellum"
	"github.com/golang/snappy"
)

// ---------------------------------------------------------------------------
// public data model
// ---------------------------------------------------------------------------

// Loc is one term occurrence inside a document.
type Loc struct {
	Field           string
	Pos, Start, End uint64
	AP              []uint64 // nil when there are no array positions
}

// Hit is one document of a term's postings.
type Hit struct {
	Doc      uint64
	Freq     uint64
	NormBits uint64
	HasNorm  bool // a norm value was present in the file (freq > 0, or 1-hit)
	Locs     []Loc
	OneHit   bool // came from a "1-hit" dictionary value (no postings record)
}

// Term is one dictionary entry with its hits in ascending Doc order.
type Term struct {
	Term []byte
	Hits []Hit
}

// StoredValue is one stored value of a document.
type StoredValue struct {
	Field string
	Typ   byte
	Value []byte
	AP    []uint64 // nil when there are no array positions
}

// SynPair is one (synonym, document) pair of a thesaurus term.
type SynPair struct {
	Syn string
	Doc uint32
}

// ThesTerm is one thesaurus entry; Pairs are sorted by (Syn, Doc).
type ThesTerm struct {
	Term  []byte
	Pairs []SynPair
}

// VecEntry maps a vector id to its document.
type VecEntry struct {
	VecID int64
	Doc   uint64
}

// VectorField is the content of a vector section.
type VectorField struct {
	Optimization uint64     // 0 recall, 1 latency, 2 memory-efficient
	Entries      []VecEntry // sorted by VecID (ties by Doc)
	IndexBytes   []byte     // opaque serialized vector index
}

// FieldInfo is everything the file says about one field.
type FieldInfo struct {
	Name         string
	ID           int // position in the sections index
	HasDict      bool
	Terms        []Term // ascending term order (FST order)
	HasDocValues bool
	DVStart      uint64 // file offsets of the doc-value block (when HasDocValues)
	DVEnd        uint64
	DictOffset   uint64              // file offset of the dictionary (0 = none)
	DocValues    map[uint64][][]byte // doc -> terms in stored order (split on 0xff)
	HasThesaurus bool
	Thesaurus    []ThesTerm // ascending term order
	Vector       *VectorField
}

// File is a fully decoded segment file.
type File struct {
	NumDocs, StoredIndexOffset, FieldsIndexOffset, SectionsIndexOffset, DocValueOffset uint64
	ChunkMode, Version, CRC                                                            uint32
	CRCOK                                                                              bool // stored CRC == crc32.ChecksumIEEE(data[:len-4])
	Fields                                                                             []FieldInfo
	Stored                                                                             [][]StoredValue
}

// ---------------------------------------------------------------------------
// constants and tunables
// ---------------------------------------------------------------------------

const (
	// FooterSize is 5 u64 + 3 u32.
	FooterSize = 5*8 + 3*4
	// Version is the only supported format version.
	Version = 16

	sectionInvertedText = 0
	sectionVector       = 1
	sectionSynonym      = 2

	fstValTypeMask    = uint64(0xc000000000000000)
	fstValTypeGeneral = uint64(0x0000000000000000)
	fstValType1Hit    = uint64(0x8000000000000000)
	mask31            = uint64(0x7fffffff)

	dvTermSeparator = byte(0xff)

	noValue = uint64(math.MaxUint64)
)

// The decoder refuses to do more than WorkBase + WorkPerByte*len(data) units
// of work that is not naturally bounded by consumed input bytes (dictionary
// keys enumerated out of a shared-suffix FST, entries enumerated out of a run
// length encoded bitmap, ...). This keeps Decode fast on corrupt input.
var (
	WorkBase    uint64 = 1 << 22
	WorkPerByte uint64 = 64
)

var errBudget = errors.New("indep: work budget exceeded (corrupt or pathological file)")

// ---------------------------------------------------------------------------
// low level reader
// ---------------------------------------------------------------------------

type rd struct {
	b []byte
	p int
}

func (r *rd) remaining() int { return len(r.b) - r.p }

func (r *rd) uvarint() (uint64, error) {
	if r.p < 0 || r.p >= len(r.b) {
		return 0, fmt.Errorf("uvarint: offset %d out of range (len %d)", r.p, len(r.b))
	}
	v, n := binary.Uvarint(r.b[r.p:])
	if n <= 0 {
		return 0, fmt.Errorf("uvarint: malformed or truncated varint at %d", r.p)
	}
	r.p += n
	return v, nil
}

func (r *rd) varint() (int64, error) {
	if r.p < 0 || r.p >= len(r.b) {
		return 0, fmt.Errorf("varint: offset %d out of range (len %d)", r.p, len(r.b))
	}
	v, n := binary.Varint(r.b[r.p:])
	if n <= 0 {
		return 0, fmt.Errorf("varint: malformed or truncated varint at %d", r.p)
	}
	r.p += n
	return v, nil
}

func (r *rd) take(n uint64) ([]byte, error) {
	if r.p < 0 || r.p > len(r.b) || n > uint64(len(r.b)-r.p) {
		return nil, fmt.Errorf("take: want %d bytes at %d, have %d", n, r.p, len(r.b)-r.p)
	}
	out := r.b[r.p : r.p+int(n)]
	r.p += int(n)
	return out, nil
}

func (r *rd) u16() (uint16, error) {
	b, err := r.take(2)
	if err != nil {
		return 0, err
	}
	return binary.BigEndian.Uint16(b), nil
}

func (r *rd) u64() (uint64, error) {
	b, err := r.take(8)
	if err != nil {
		return 0, err
	}
	return binary.BigEndian.Uint64(b), nil
}

func cloneBytes(b []byte) []byte {
	out := make([]byte, len(b))
	copy(out, b)
	return out
}

// ---------------------------------------------------------------------------
// decoder
// ---------------------------------------------------------------------------

type decoder struct {
	data   []byte
	body   []byte // data without the footer
	budget uint64
	names  []string // field id -> name ("" for absent fields)
	f      *File
}

func (d *decoder) spend(n uint64) error {
	if n > d.budget {
		d.budget = 0
		return errBudget
	}
	d.budget -= n
	return nil
}

// at returns a reader over the body positioned at the absolute offset off.
func (d *decoder) at(off uint64) (*rd, error) {
	if off > uint64(len(d.body)) {
		return nil, fmt.Errorf("offset %d beyond body (len %d)", off, len(d.body))
	}
	return &rd{b: d.body, p: int(off)}, nil
}

func (d *decoder) fieldName(id uint64) string {
	if id < uint64(len(d.names)) {
		return d.names[id]
	}
	return ""
}

// Decode parses a complete zap v16 segment file. It never panics; any
// structural problem is reported as an error (and a nil *File).
func Decode(data []byte) (f *File, err error) {
	defer func() {
		if r := recover(); r != nil {
			f = nil
			err = fmt.Errorf("indep: panic while decoding: %v", r)
		}
	}()
	f, err = decode(data)
	if err != nil {
		return nil, err
	}
	return f, nil
}

func decode(data []byte) (*File, error) {
	n := len(data)
	if n < FooterSize {
		return nil, fmt.Errorf("indep: file too short for footer: %d < %d", n, FooterSize)
	}
	f := &File{}
	// Footer, anchored at the end of the file.
	f.CRC = binary.BigEndian.Uint32(data[n-4:])
	f.Version = binary.BigEndian.Uint32(data[n-8:])
	f.ChunkMode = binary.BigEndian.Uint32(data[n-12:])
	f.DocValueOffset = binary.BigEndian.Uint64(data[n-20:])
	f.SectionsIndexOffset = binary.BigEndian.Uint64(data[n-28:])
	f.FieldsIndexOffset = binary.BigEndian.Uint64(data[n-36:])
	f.StoredIndexOffset = binary.BigEndian.Uint64(data[n-44:])
	f.NumDocs = binary.BigEndian.Uint64(data[n-52:])
	f.CRCOK = f.CRC == crc32.ChecksumIEEE(data[:n-4])
	if f.Version != Version {
		return nil, fmt.Errorf("indep: unsupported version %d (want %d)", f.Version, Version)
	}

	d := &decoder{
		data:   data,
		body:   data[:n-FooterSize],
		budget: WorkBase + WorkPerByte*uint64(n),
		f:      f,
	}
	if f.NumDocs > uint64(len(d.body))/8 {
		return nil, fmt.Errorf("indep: numDocs %d impossible for a %d byte file", f.NumDocs, n)
	}
	if err := d.fields(); err != nil {
		return nil, fmt.Errorf("indep: %w", err)
	}
	if err := d.stored(); err != nil {
		return nil, fmt.Errorf("indep: %w", err)
	}
	return f, nil
}

// ---------------------------------------------------------------------------
// sections index, field records
// ---------------------------------------------------------------------------

type sectionEntry struct {
	typ  uint16
	addr uint64
}

type fieldRecord struct {
	id       int
	name     string
	sections []sectionEntry
}

func (d *decoder) fields() error {
	r, err := d.at(d.f.SectionsIndexOffset)
	if err != nil {
		return fmt.Errorf("sections index: %w", err)
	}
	nf, err := r.uvarint()
	if err != nil {
		return fmt.Errorf("sections index: number of fields: %w", err)
	}
	if nf > uint64(r.remaining())/8 {
		return fmt.Errorf("sections index: %d fields do not fit in the file", nf)
	}
	addrs := make([]uint64, nf)
	for i := range addrs {
		if addrs[i], err = r.u64(); err != nil {
			return fmt.Errorf("sections index: field %d: %w", i, err)
		}
	}

	d.names = make([]string, nf)
	var recs []fieldRecord
	for id, addr := range addrs {
		if addr == 0 {
			continue // absent field
		}
		rec, err := d.fieldRecord(id, addr)
		if err != nil {
			return fmt.Errorf("field %d record at %d: %w", id, addr, err)
		}
		d.names[id] = rec.name
		recs = append(recs, rec)
	}

	d.f.Fields = make([]FieldInfo, 0, len(recs))
	for _, rec := range recs {
		fi := FieldInfo{Name: rec.name, ID: rec.id}
		for _, s := range rec.sections {
			if s.addr == 0 {
				continue // no such section for this field
			}
			var err error
			switch s.typ {
			case sectionInvertedText:
				err = d.textSection(&fi, s.addr)
			case sectionVector:
				err = d.vectorSection(&fi, s.addr)
			case sectionSynonym:
				err = d.synonymSection(&fi, s.addr)
			default:
				// unknown section types are not described; ignore them
			}
			if err != nil {
				return fmt.Errorf("field %d (%q) section type %d at %d: %w", rec.id, rec.name, s.typ, s.addr, err)
			}
		}
		d.f.Fields = append(d.f.Fields, fi)
	}
	return nil
}

func (d *decoder) fieldRecord(id int, addr uint64) (fieldRecord, error) {
	rec := fieldRecord{id: id}
	r, err := d.at(addr)
	if err != nil {
		return rec, err
	}
	nameLen, err := r.uvarint()
	if err != nil {
		return rec, fmt.Errorf("name length: %w", err)
	}
	name, err := r.take(nameLen)
	if err != nil {
		return rec, fmt.Errorf("name: %w", err)
	}
	rec.name = string(name)
	ns, err := r.uvarint()
	if err != nil {
		return rec, fmt.Errorf("number of sections: %w", err)
	}
	if ns > uint64(r.remaining())/10 {
		return rec, fmt.Errorf("%d section entries do not fit in the file", ns)
	}
	rec.sections = make([]sectionEntry, ns)
	for i := range rec.sections {
		if rec.sections[i].typ, err = r.u16(); err != nil {
			return rec, err
		}
		if rec.sections[i].addr, err = r.u64(); err != nil {
			return rec, err
		}
	}
	return rec, nil
}

// ---------------------------------------------------------------------------
// inverted text section
// ---------------------------------------------------------------------------

func (d *decoder) textSection(fi *FieldInfo, addr uint64) error {
	r, err := d.at(addr)
	if err != nil {
		return err
	}
	dvStart, err := r.uvarint()
	if err != nil {
		return fmt.Errorf("dvStart: %w", err)
	}
	dvEnd, err := r.uvarint()
	if err != nil {
		return fmt.Errorf("dvEnd: %w", err)
	}
	dictOff, err := r.uvarint()
	if err != nil {
		return fmt.Errorf("dictOffset: %w", err)
	}
	if dvStart != noValue {
		dv, err := d.docValues(dvStart, dvEnd)
		if err != nil {
			return fmt.Errorf("doc values [%d,%d): %w", dvStart, dvEnd, err)
		}
		fi.HasDocValues = true
		fi.DVStart, fi.DVEnd = dvStart, dvEnd
		fi.DocValues = dv
	}
	fi.DictOffset = dictOff
	if dictOff != 0 {
		terms, err := d.dictionary(dictOff)
		if err != nil {
			return fmt.Errorf("dictionary at %d: %w", dictOff, err)
		}
		fi.HasDict = true
		fi.Terms = terms
	}
	return nil
}

// fstPairs enumerates all (key, value) pairs of a length prefixed vellum FST
// located at r's position, and leaves r just after the FST bytes.
func (d *decoder) fstPairs(r *rd, fn func(key []byte, val uint64) error) error {
	vlen, err := r.uvarint()
	if err != nil {
		return fmt.Errorf("vellum length: %w", err)
	}
	vb, err := r.take(vlen)
	if err != nil {
		return fmt.Errorf("vellum data: %w", err)
	}
	fst, err := vellum.Load(vb)
	if err != nil {
		return fmt.Errorf("vellum load: %w", err)
	}
	defer fst.Close()
	itr, err := fst.Iterator(nil, nil)
	for err == nil {
		k, v := itr.Current()
		if uint64(len(k)) > vlen {
			return fmt.Errorf("vellum: key longer than the FST itself")
		}
		if err := d.spend(uint64(len(k)) + 1); err != nil {
			return err
		}
		if err := fn(cloneBytes(k), v); err != nil {
			return err
		}
		err = itr.Next()
	}
	if err != vellum.ErrIteratorDone {
		return fmt.Errorf("vellum iterate: %w", err)
	}
	return nil
}

func (d *decoder) dictionary(off uint64) ([]Term, error) {
	r, err := d.at(off)
	if err != nil {
		return nil, err
	}
	terms := []Term{}
	err = d.fstPairs(r, func(key []byte, val uint64) error {
		t := Term{Term: key}
		switch val & fstValTypeMask {
		case fstValType1Hit:
			t.Hits = []Hit{{
				Doc:      val & mask31,
				Freq:     1,
				NormBits: (val >> 31) & mask31,
				HasNorm:  true,
				OneHit:   true,
			}}
		case fstValTypeGeneral:
			hits, err := d.postings(val)
			if err != nil {
				return fmt.Errorf("term %q postings at %d: %w", key, val, err)
			}
			t.Hits = hits
		default:
			return fmt.Errorf("term %q: unknown dictionary value type in %#x", key, val)
		}
		terms = append(terms, t)
		return nil
	})
	if err != nil {
		return nil, err
	}
	return terms, nil
}

// chunked is a chunked int stream: cumulative chunk end offsets plus data.
type chunked struct {
	ends []uint64
	data []byte // from the start of the chunk data to the end of the body
}

func (d *decoder) chunkedAt(off uint64) (*chunked, error) {
	r, err := d.at(off)
	if err != nil {
		return nil, err
	}
	nc, err := r.uvarint()
	if err != nil {
		return nil, fmt.Errorf("number of chunks: %w", err)
	}
	if nc > uint64(r.remaining()) {
		return nil, fmt.Errorf("%d chunk offsets do not fit in the file", nc)
	}
	if err := d.spend(nc); err != nil {
		return nil, err
	}
	c := &chunked{ends: make([]uint64, nc)}
	for i := range c.ends {
		if c.ends[i], err = r.uvarint(); err != nil {
			return nil, fmt.Errorf("chunk %d end offset: %w", i, err)
		}
	}
	c.data = r.b[r.p:]
	return c, nil
}

func (c *chunked) chunk(i uint64) ([]byte, error) {
	if i >= uint64(len(c.ends)) {
		return nil, fmt.Errorf("chunk %d requested but stream has %d chunks", i, len(c.ends))
	}
	var start uint64
	if i > 0 {
		start = c.ends[i-1]
	}
	end := c.ends[i]
	if start > end || end > uint64(len(c.data)) {
		return nil, fmt.Errorf("chunk %d has bad span [%d,%d) (data len %d)", i, start, end, len(c.data))
	}
	return c.data[start:end], nil
}

// chunkCursor walks a chunked stream in document order.
type chunkCursor struct {
	c      *chunked
	cur    uint64
	loaded bool
	r      rd
}

func (cc *chunkCursor) seek(chunk uint64) error {
	if cc.loaded && cc.cur == chunk {
		return nil
	}
	b, err := cc.c.chunk(chunk)
	if err != nil {
		return err
	}
	cc.cur, cc.loaded, cc.r = chunk, true, rd{b: b}
	return nil
}

func chunkSizeFor(mode uint32, cardinality, numDocs uint64) (uint64, error) {
	switch {
	case mode <= 1024:
		return uint64(mode), nil
	case mode == 1025:
		if cardinality <= 1024 {
			return numDocs, nil
		}
		return 1024, nil
	case mode == 1026:
		numChunks := cardinality/1024 + 1
		return numDocs / numChunks, nil
	}
	return 0, fmt.Errorf("unknown chunk mode %d", mode)
}

func loadRoaring(b []byte) (*roaring.Bitmap, error) {
	bm := roaring.New()
	if err := bm.UnmarshalBinary(cloneBytes(b)); err != nil {
		return nil, fmt.Errorf("roaring bitmap: %w", err)
	}
	return bm, nil
}

func (d *decoder) postings(off uint64) ([]Hit, error) {
	r, err := d.at(off)
	if err != nil {
		return nil, err
	}
	fnOff, err := r.uvarint()
	if err != nil {
		return nil, fmt.Errorf("freqNormOffset: %w", err)
	}
	locOff, err := r.uvarint()
	if err != nil {
		return nil, fmt.Errorf("locOffset: %w", err)
	}
	rlen, err := r.uvarint()
	if err != nil {
		return nil, fmt.Errorf("roaringLen: %w", err)
	}
	rb, err := r.take(rlen)
	if err != nil {
		return nil, fmt.Errorf("roaring bytes: %w", err)
	}
	if err := d.spend(rlen/8 + 1); err != nil {
		return nil, err
	}
	bm, err := loadRoaring(rb)
	if err != nil {
		return nil, err
	}
	card := bm.GetCardinality()

	var fn, loc *chunkCursor
	if fnOff != 0 {
		c, err := d.chunkedAt(fnOff)
		if err != nil {
			return nil, fmt.Errorf("freq/norm stream at %d: %w", fnOff, err)
		}
		fn = &chunkCursor{c: c}
	}
	if locOff != 0 {
		c, err := d.chunkedAt(locOff)
		if err != nil {
			return nil, fmt.Errorf("location stream at %d: %w", locOff, err)
		}
		loc = &chunkCursor{c: c}
	}
	var chunkSize uint64
	if fn != nil && card > 0 {
		chunkSize, err = chunkSizeFor(d.f.ChunkMode, card, d.f.NumDocs)
		if err != nil {
			return nil, err
		}
		if chunkSize == 0 {
			return nil, fmt.Errorf("chunk size is 0 (chunkMode %d, cardinality %d, numDocs %d)", d.f.ChunkMode, card, d.f.NumDocs)
		}
	}

	hits := []Hit{}
	it := bm.Iterator()
	for it.HasNext() {
		doc := uint64(it.Next())
		if err := d.spend(1); err != nil {
			return nil, err
		}
		h := Hit{Doc: doc}
		if fn != nil {
			ci := doc / chunkSize
			if err := fn.seek(ci); err != nil {
				return nil, fmt.Errorf("doc %d freq/norm: %w", doc, err)
			}
			v, err := fn.r.uvarint()
			if err != nil {
				return nil, fmt.Errorf("doc %d freq: %w", doc, err)
			}
			h.Freq = v >> 1
			hasLocs := v&1 == 1
			if h.Freq > 0 {
				if h.NormBits, err = fn.r.uvarint(); err != nil {
					return nil, fmt.Errorf("doc %d norm: %w", doc, err)
				}
				h.HasNorm = true
			}
			if hasLocs {
				if loc == nil {
					return nil, fmt.Errorf("doc %d has locations but the postings record has no location stream", doc)
				}
				if err := loc.seek(ci); err != nil {
					return nil, fmt.Errorf("doc %d locations: %w", doc, err)
				}
				if h.Locs, err = d.locations(&loc.r); err != nil {
					return nil, fmt.Errorf("doc %d locations: %w", doc, err)
				}
			}
		}
		hits = append(hits, h)
	}
	return hits, nil
}

// locations reads one hit's worth of location records.
func (d *decoder) locations(r *rd) ([]Loc, error) {
	nb, err := r.uvarint()
	if err != nil {
		return nil, fmt.Errorf("numLocBytes: %w", err)
	}
	lb, err := r.take(nb)
	if err != nil {
		return nil, fmt.Errorf("location bytes: %w", err)
	}
	lr := &rd{b: lb}
	var locs []Loc
	for lr.remaining() > 0 {
		var vals [5]uint64
		for i := range vals {
			if vals[i], err = lr.uvarint(); err != nil {
				return nil, fmt.Errorf("location record %d: %w", len(locs), err)
			}
		}
		l := Loc{Field: d.fieldName(vals[0]), Pos: vals[1], Start: vals[2], End: vals[3]}
		nap := vals[4]
		if nap > uint64(lr.remaining()) {
			return nil, fmt.Errorf("location record %d: %d array positions do not fit", len(locs), nap)
		}
		if nap > 0 {
			l.AP = make([]uint64, nap)
			for i := range l.AP {
				if l.AP[i], err = lr.uvarint(); err != nil {
					return nil, fmt.Errorf("location record %d array position: %w", len(locs), err)
				}
			}
		}
		locs = append(locs, l)
	}
	return locs, nil
}

// ---------------------------------------------------------------------------
// doc values
// ---------------------------------------------------------------------------

// snappyDecode decodes a snappy block, refusing blocks that claim a decoded
// size no valid block of that encoded size could have.
func snappyDecode(b []byte) ([]byte, error) {
	if len(b) == 0 {
		return nil, nil
	}
	n, err := snappy.DecodedLen(b)
	if err != nil {
		return nil, fmt.Errorf("snappy: %w", err)
	}
	if uint64(n) > 64*uint64(len(b))+64 {
		return nil, fmt.Errorf("snappy: implausible decoded length %d for %d encoded bytes", n, len(b))
	}
	out, err := snappy.Decode(nil, b)
	if err != nil {
		return nil, fmt.Errorf("snappy: %w", err)
	}
	return out, nil
}

func splitTerms(b []byte) [][]byte {
	out := [][]byte{}
	for len(b) > 0 {
		i := bytes.IndexByte(b, dvTermSeparator)
		if i < 0 {
			break // bytes not followed by a separator are not a term
		}
		out = append(out, cloneBytes(b[:i]))
		b = b[i+1:]
	}
	return out
}

func (d *decoder) docValues(dvStart, dvEnd uint64) (map[uint64][][]byte, error) {
	if dvEnd > uint64(len(d.body)) || dvStart > dvEnd {
		return nil, fmt.Errorf("range outside the file body (len %d)", len(d.body))
	}
	if dvEnd-dvStart < 16 {
		return nil, fmt.Errorf("range shorter than its 16 byte trailer")
	}
	chunkOffsetsLen := binary.BigEndian.Uint64(d.body[dvEnd-16:])
	numChunks := binary.BigEndian.Uint64(d.body[dvEnd-8:])
	if chunkOffsetsLen > dvEnd-16-dvStart {
		return nil, fmt.Errorf("chunk offsets length %d larger than the range", chunkOffsetsLen)
	}
	offsStart := dvEnd - 16 - chunkOffsetsLen
	if numChunks > chunkOffsetsLen {
		return nil, fmt.Errorf("%d chunks cannot be described by %d bytes", numChunks, chunkOffsetsLen)
	}
	or := &rd{b: d.body[offsStart : dvEnd-16]}
	ends := make([]uint64, numChunks)
	for i := range ends {
		var err error
		if ends[i], err = or.uvarint(); err != nil {
			return nil, fmt.Errorf("chunk %d end offset: %w", i, err)
		}
	}
	chunkArea := d.body[dvStart:offsStart]

	out := map[uint64][][]byte{}
	var prev uint64
	for i, end := range ends {
		if end < prev || end > uint64(len(chunkArea)) {
			return nil, fmt.Errorf("chunk %d has bad span [%d,%d) (chunk area len %d)", i, prev, end, len(chunkArea))
		}
		chunk := chunkArea[prev:end]
		prev = end
		if len(chunk) == 0 {
			continue // no documents in this chunk
		}
		if err := d.docValueChunk(chunk, out); err != nil {
			return nil, fmt.Errorf("chunk %d: %w", i, err)
		}
	}
	return out, nil
}

func (d *decoder) docValueChunk(chunk []byte, out map[uint64][][]byte) error {
	r := &rd{b: chunk}
	nDocs, err := r.uvarint()
	if err != nil {
		return fmt.Errorf("number of docs: %w", err)
	}
	if nDocs > uint64(r.remaining())/2 {
		return fmt.Errorf("%d doc entries do not fit in the chunk", nDocs)
	}
	type ent struct{ doc, end uint64 }
	ents := make([]ent, nDocs)
	for i := range ents {
		if ents[i].doc, err = r.uvarint(); err != nil {
			return fmt.Errorf("entry %d doc: %w", i, err)
		}
		if ents[i].end, err = r.uvarint(); err != nil {
			return fmt.Errorf("entry %d offset: %w", i, err)
		}
	}
	raw, err := snappyDecode(r.b[r.p:])
	if err != nil {
		return err
	}
	var prev uint64
	for i, e := range ents {
		if e.end < prev || e.end > uint64(len(raw)) {
			return fmt.Errorf("entry %d (doc %d) has bad span [%d,%d) (uncompressed len %d)", i, e.doc, prev, e.end, len(raw))
		}
		if _, dup := out[e.doc]; dup {
			return fmt.Errorf("doc %d listed more than once", e.doc)
		}
		out[e.doc] = splitTerms(raw[prev:e.end])
		prev = e.end
	}
	return nil
}

// ---------------------------------------------------------------------------
// synonym section
// ---------------------------------------------------------------------------

func loadRoaring64(b []byte) (*roaring64.Bitmap, error) {
	// The roaring64 reader allocates from an unchecked 64-bit count; check it
	// against what the buffer could possibly hold first (each bucket needs a
	// 4 byte key and at least an 8 byte 32-bit bitmap).
	if len(b) < 8 {
		return nil, fmt.Errorf("roaring64 bitmap: only %d bytes", len(b))
	}
	if n := binary.LittleEndian.Uint64(b); n > uint64(len(b)-8)/12 {
		return nil, fmt.Errorf("roaring64 bitmap: %d buckets do not fit in %d bytes", n, len(b))
	}
	bm := roaring64.New()
	if _, err := bm.ReadFrom(bytes.NewReader(b)); err != nil {
		return nil, fmt.Errorf("roaring64 bitmap: %w", err)
	}
	return bm, nil
}

func (d *decoder) synonymSection(fi *FieldInfo, addr uint64) error {
	r, err := d.at(addr)
	if err != nil {
		return err
	}
	var hdr [3]uint64
	for i := range hdr {
		if hdr[i], err = r.uvarint(); err != nil {
			return fmt.Errorf("header value %d: %w", i, err)
		}
	}
	if hdr[0] != noValue || hdr[1] != noValue {
		return fmt.Errorf("doc value markers are %#x,%#x, want MaxUint64", hdr[0], hdr[1])
	}
	thesOff := hdr[2]
	if thesOff == 0 {
		return nil // by analogy with dictOffset 0: no thesaurus
	}
	tr, err := d.at(thesOff)
	if err != nil {
		return fmt.Errorf("thesaurus: %w", err)
	}
	type rawTerm struct {
		term []byte
		off  uint64
	}
	var raws []rawTerm
	if err := d.fstPairs(tr, func(key []byte, val uint64) error {
		raws = append(raws, rawTerm{key, val})
		return nil
	}); err != nil {
		return fmt.Errorf("thesaurus at %d: %w", thesOff, err)
	}
	// synonym id -> synonym string table follows the FST
	nst, err := tr.uvarint()
	if err != nil {
		return fmt.Errorf("synonym table size: %w", err)
	}
	if nst > uint64(tr.remaining())/2 {
		return fmt.Errorf("%d synonym table entries do not fit in the file", nst)
	}
	syns := make(map[uint64]string, nst)
	for i := uint64(0); i < nst; i++ {
		id, err := tr.uvarint()
		if err != nil {
			return fmt.Errorf("synonym table entry %d id: %w", i, err)
		}
		tl, err := tr.uvarint()
		if err != nil {
			return fmt.Errorf("synonym table entry %d length: %w", i, err)
		}
		tb, err := tr.take(tl)
		if err != nil {
			return fmt.Errorf("synonym table entry %d term: %w", i, err)
		}
		syns[id] = string(tb)
	}

	fi.HasThesaurus = true
	fi.Thesaurus = make([]ThesTerm, 0, len(raws))
	for _, rt := range raws {
		pr, err := d.at(rt.off)
		if err != nil {
			return fmt.Errorf("term %q synonym postings: %w", rt.term, err)
		}
		bl, err := pr.uvarint()
		if err != nil {
			return fmt.Errorf("term %q synonym postings length: %w", rt.term, err)
		}
		bb, err := pr.take(bl)
		if err != nil {
			return fmt.Errorf("term %q synonym postings bytes: %w", rt.term, err)
		}
		if err := d.spend(bl/8 + 1); err != nil {
			return err
		}
		bm, err := loadRoaring64(bb)
		if err != nil {
			return fmt.Errorf("term %q: %w", rt.term, err)
		}
		tt := ThesTerm{Term: rt.term, Pairs: []SynPair{}}
		it := bm.Iterator()
		for it.HasNext() {
			v := it.Next()
			if err := d.spend(1); err != nil {
				return err
			}
			sid := v >> 32
			s, ok := syns[sid]
			if !ok {
				return fmt.Errorf("term %q: synonym id %d not in the synonym table", rt.term, sid)
			}
			tt.Pairs = append(tt.Pairs, SynPair{Syn: s, Doc: uint32(v)})
		}
		sort.SliceStable(tt.Pairs, func(i, j int) bool {
			if tt.Pairs[i].Syn != tt.Pairs[j].Syn {
				return tt.Pairs[i].Syn < tt.Pairs[j].Syn
			}
			return tt.Pairs[i].Doc < tt.Pairs[j].Doc
		})
		fi.Thesaurus = append(fi.Thesaurus, tt)
	}
	return nil
}

// ---------------------------------------------------------------------------
// vector section
// ---------------------------------------------------------------------------

func (d *decoder) vectorSection(fi *FieldInfo, addr uint64) error {
	r, err := d.at(addr)
	if err != nil {
		return err
	}
	var hdr [4]uint64
	for i := range hdr {
		if hdr[i], err = r.uvarint(); err != nil {
			return fmt.Errorf("header value %d: %w", i, err)
		}
	}
	if hdr[0] != noValue || hdr[1] != noValue {
		return fmt.Errorf("doc value markers are %#x,%#x, want MaxUint64", hdr[0], hdr[1])
	}
	vf := &VectorField{Optimization: hdr[2]}
	numVecs := hdr[3]
	if numVecs > uint64(r.remaining())/2 {
		return fmt.Errorf("%d vector entries do not fit in the file", numVecs)
	}
	vf.Entries = make([]VecEntry, numVecs)
	for i := range vf.Entries {
		if vf.Entries[i].VecID, err = r.varint(); err != nil {
			return fmt.Errorf("entry %d vector id: %w", i, err)
		}
		if vf.Entries[i].Doc, err = r.uvarint(); err != nil {
			return fmt.Errorf("entry %d doc: %w", i, err)
		}
	}
	sort.SliceStable(vf.Entries, func(i, j int) bool {
		if vf.Entries[i].VecID != vf.Entries[j].VecID {
			return vf.Entries[i].VecID < vf.Entries[j].VecID
		}
		return vf.Entries[i].Doc < vf.Entries[j].Doc
	})
	il, err := r.uvarint()
	if err != nil {
		return fmt.Errorf("index length: %w", err)
	}
	ib, err := r.take(il)
	if err != nil {
		return fmt.Errorf("index bytes: %w", err)
	}
	vf.IndexBytes = cloneBytes(ib)
	fi.Vector = vf
	return nil
}

// ---------------------------------------------------------------------------
// stored fields
// ---------------------------------------------------------------------------

func (d *decoder) stored() error {
	nd := d.f.NumDocs
	r, err := d.at(d.f.StoredIndexOffset)
	if err != nil {
		return fmt.Errorf("stored index: %w", err)
	}
	if nd > uint64(r.remaining())/8 {
		return fmt.Errorf("stored index: %d entries at %d do not fit in the file", nd, d.f.StoredIndexOffset)
	}
	d.f.Stored = make([][]StoredValue, nd)
	for doc := uint64(0); doc < nd; doc++ {
		off, err := r.u64()
		if err != nil {
			return fmt.Errorf("stored index entry %d: %w", doc, err)
		}
		vals, err := d.storedRecord(off)
		if err != nil {
			return fmt.Errorf("stored record of doc %d at %d: %w", doc, off, err)
		}
		d.f.Stored[doc] = vals
	}
	return nil
}

func (d *decoder) storedRecord(off uint64) ([]StoredValue, error) {
	r, err := d.at(off)
	if err != nil {
		return nil, err
	}
	metaLen, err := r.uvarint()
	if err != nil {
		return nil, fmt.Errorf("metaLen: %w", err)
	}
	dataLen, err := r.uvarint()
	if err != nil {
		return nil, fmt.Errorf("dataLen: %w", err)
	}
	meta, err := r.take(metaLen)
	if err != nil {
		return nil, fmt.Errorf("meta: %w", err)
	}
	data, err := r.take(dataLen)
	if err != nil {
		return nil, fmt.Errorf("data: %w", err)
	}
	mr := &rd{b: meta}
	idLen, err := mr.uvarint()
	if err != nil {
		return nil, fmt.Errorf("idLen: %w", err)
	}
	if idLen > uint64(len(data)) {
		return nil, fmt.Errorf("idLen %d larger than data (%d bytes)", idLen, len(data))
	}
	vals := []StoredValue{{Field: "_id", Typ: 't', Value: cloneBytes(data[:idLen])}}
	raw, err := snappyDecode(data[idLen:])
	if err != nil {
		return nil, err
	}
	for mr.remaining() > 0 {
		var g [5]uint64 // fieldID, type, offset, length, numArrayPos
		for i := range g {
			if g[i], err = mr.uvarint(); err != nil {
				return nil, fmt.Errorf("value %d meta: %w", len(vals)-1, err)
			}
		}
		if g[1] > 255 {
			return nil, fmt.Errorf("value %d: type %d is not a byte", len(vals)-1, g[1])
		}
		if g[2] > uint64(len(raw)) || g[3] > uint64(len(raw))-g[2] {
			return nil, fmt.Errorf("value %d: span offset %d length %d outside uncompressed data (%d bytes)", len(vals)-1, g[2], g[3], len(raw))
		}
		sv := StoredValue{
			Field: d.fieldName(g[0]),
			Typ:   byte(g[1]),
			Value: cloneBytes(raw[g[2] : g[2]+g[3]]),
		}
		if g[4] > uint64(mr.remaining()) {
			return nil, fmt.Errorf("value %d: %d array positions do not fit in meta", len(vals)-1, g[4])
		}
		if g[4] > 0 {
			sv.AP = make([]uint64, g[4])
			for i := range sv.AP {
				if sv.AP[i], err = mr.uvarint(); err != nil {
					return nil, fmt.Errorf("value %d array position: %w", len(vals)-1, err)
				}
			}
		}
		vals = append(vals, sv)
	}
	return vals, nil
}
