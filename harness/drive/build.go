package drive

import (
	"encoding/json"
	"fmt"
	"os"
	"os/exec"
	"path/filepath"
	"sync"
	"sync/atomic"

	"github.com/RoaringBitmap/roaring/v2"
	segment "github.com/blevesearch/scorch_segment_api/v2"
	zap "github.com/blevesearch/zapx/v16"

	"verifharness/spec"
)

var Plugin = &zap.ZapPlugin{}

// Scratch directory for segment files; one per process, removed by the test main.
var (
	scratchMu  sync.Mutex
	scratchDir string
)
var fileSeq int64

// ScratchDir is safe for concurrent use (stress stages create files from several goroutines).
func ScratchDir() string {
	scratchMu.Lock()
	defer scratchMu.Unlock()
	if scratchDir == "" {
		base := os.Getenv("VERIF_SCRATCH")
		if base == "" {
			base = os.TempDir()
		}
		d, err := os.MkdirTemp(base, "zapverif-")
		if err != nil {
			panic(err)
		}
		scratchDir = d
	}
	return scratchDir
}

func CleanupScratch() {
	scratchMu.Lock()
	defer scratchMu.Unlock()
	if scratchDir != "" {
		os.RemoveAll(scratchDir)
		scratchDir = ""
	}
}

// NewPath returns a fresh, non-existing file path in the scratch directory.
func NewPath(tag string) string {
	n := atomic.AddInt64(&fileSeq, 1)
	return filepath.Join(ScratchDir(), fmt.Sprintf("%s-%d-%d.zap", tag, os.Getpid(), n))
}

// NewDir creates a fresh, empty directory in the scratch directory (for operations whose
// surroundings are inspected afterwards: nothing but the destination may appear in it).
func NewDir(tag string) string {
	n := atomic.AddInt64(&fileSeq, 1)
	d := filepath.Join(ScratchDir(), fmt.Sprintf("%s-%d-%d.d", tag, os.Getpid(), n))
	_ = os.MkdirAll(d, 0o700)
	return d
}

// ListDir returns the names in dir (sorted).
func ListDir(dir string) []string {
	ents, _ := os.ReadDir(dir)
	var out []string
	for _, e := range ents {
		out = append(out, e.Name())
	}
	return out
}

// Build builds an in-memory segment from fresh stubs. chunkMode 0 means the
// public New (mode 1026).
func Build(b *spec.BatchSpec, chunkMode uint32) (segment.Segment, uint64, error) {
	docs := Docs(b)
	if chunkMode == 0 {
		return Plugin.New(docs)
	}
	return zap.VerifNewWithChunkMode(docs, chunkMode)
}

// Persist writes an in-memory segment to a fresh path.
func Persist(seg segment.Segment, tag string) (string, error) {
	sb, ok := seg.(*zap.SegmentBase)
	if !ok {
		return "", fmt.Errorf("not an in-memory segment: %T", seg)
	}
	path := NewPath(tag)
	return path, sb.Persist(path)
}

// PersistReserved is Persist onto a destination that already exists as an EMPTY file (a name
// reserved beforehand, as os.CreateTemp does) when reserved is set.
func PersistReserved(seg segment.Segment, tag string, reserved bool) (string, error) {
	sb, ok := seg.(*zap.SegmentBase)
	if !ok {
		return "", fmt.Errorf("not an in-memory segment: %T", seg)
	}
	path := NewPath(tag)
	if reserved {
		Reserve(path)
	}
	return path, sb.Persist(path)
}

// Reserve creates path as an empty file.
func Reserve(path string) {
	if f, err := os.OpenFile(path, os.O_CREATE|os.O_WRONLY|os.O_EXCL, 0o600); err == nil {
		f.Close()
	}
}

func Open(path string) (segment.Segment, error) { return Plugin.Open(path) }

// Bitmap converts a DropSpec.
func Bitmap(d spec.DropSpec) *roaring.Bitmap {
	if d.Nil {
		return nil
	}
	bm := roaring.New()
	for _, x := range d.Docs {
		bm.Add(x)
	}
	return bm
}

// Merge merges with an explicit chunk mode (0 = public Merge, mode 1026).
func Merge(segs []segment.Segment, drops []*roaring.Bitmap, path string, chunkMode uint32,
	closeCh chan struct{}, s segment.StatsReporter) ([][]uint64, uint64, error) {
	// the deletion bitmaps stay the caller's: a merge reads them and leaves them as they were
	before := make([]*roaring.Bitmap, len(drops))
	for i, d := range drops {
		if d != nil {
			before[i] = d.Clone()
		}
	}
	var nums [][]uint64
	var size uint64
	var err error
	if chunkMode == 0 {
		nums, size, err = Plugin.Merge(segs, drops, path, closeCh, s)
	} else {
		nums, size, err = zap.VerifMergeWithChunkMode(segs, drops, path, chunkMode, closeCh, s)
	}
	for i, d := range drops {
		if (d == nil) != (before[i] == nil) || d != nil && !d.Equals(before[i]) {
			return nums, size, fmt.Errorf("INPUT-MODIFIED: Merge changed the caller's deletion bitmap of input %d from %v to %v (merge returned %v)", i, before[i], d, err)
		}
	}
	return nums, size, err
}

// PlanResult is what executing a merge plan produced.
type PlanResult struct {
	Seg     segment.Segment
	Path    string     // "" for in-memory leaves
	NewNums [][]uint64 // inner nodes: as returned by Merge
	Size    uint64     // inner nodes: as returned by Merge; leaves: as returned by New
	// Nodes holds the result of every inner node in post-order (children before parents); the last is the root.
	Nodes   []*NodeResult
	toClose []segment.Segment
	paths   []string
}

type NodeResult struct {
	Plan    *spec.MergePlan
	Seg     segment.Segment
	Path    string
	NewNums [][]uint64
	Size    uint64
}

// Close releases every segment and file the plan execution created.
func (r *PlanResult) Close() {
	for i := len(r.toClose) - 1; i >= 0; i-- {
		r.toClose[i].Close()
	}
	for _, p := range r.paths {
		os.Remove(p)
	}
	r.toClose, r.paths = nil, nil
}

// RunPlan executes a merge plan with the real code. Any error aborts.
func RunPlan(p *spec.MergePlan) (*PlanResult, error) {
	r := &PlanResult{}
	seg, path, nums, size, err := r.run(p)
	if err != nil {
		r.Close()
		return nil, err
	}
	r.Seg, r.Path, r.NewNums, r.Size = seg, path, nums, size
	return r, nil
}

func (r *PlanResult) run(p *spec.MergePlan) (segment.Segment, string, [][]uint64, uint64, error) {
	if p.IsLeaf() {
		seg, size, err := Build(p.Leaf, p.ChunkMode)
		if err != nil {
			return nil, "", nil, 0, fmt.Errorf("build leaf: %w", err)
		}
		if p.Child {
			seg.Close()
			path, err := BuildInChild(p.Leaf, p.ChunkMode)
			if err != nil {
				return nil, "", nil, 0, fmt.Errorf("leaf built by a child process: %w", err)
			}
			r.paths = append(r.paths, path)
			o, err := Open(path)
			if err != nil {
				return nil, "", nil, 0, fmt.Errorf("open leaf written by a child process: %w", err)
			}
			r.toClose = append(r.toClose, o)
			return o, path, nil, size, nil
		}
		if !p.Mmap {
			r.toClose = append(r.toClose, seg)
			return seg, "", nil, size, nil
		}
		// every other shape of leaf is written onto a reserved (empty, existing) name - a pure
		// function of the plan, so that case files replay identically
		path, err := PersistReserved(seg, "leaf", len(p.Leaf.Docs)%2 == 1)
		seg.Close()
		if err != nil {
			return nil, "", nil, 0, fmt.Errorf("persist leaf: %w", err)
		}
		r.paths = append(r.paths, path)
		o, err := Open(path)
		if err != nil {
			return nil, "", nil, 0, fmt.Errorf("open leaf: %w", err)
		}
		r.toClose = append(r.toClose, o)
		return o, path, nil, size, nil
	}
	segs := make([]segment.Segment, len(p.Children))
	drops := make([]*roaring.Bitmap, len(p.Children))
	for i := range p.Children {
		s, _, _, _, err := r.run(&p.Children[i])
		if err != nil {
			return nil, "", nil, 0, err
		}
		segs[i] = s
		if i < len(p.Drops) {
			drops[i] = Bitmap(p.Drops[i])
		}
	}
	path := NewPath("merge")
	if len(p.Children)%2 == 0 {
		Reserve(path)
	}
	nums, size, err := Merge(segs, drops, path, p.ChunkMode, nil, nil)
	if err != nil {
		return nil, "", nil, 0, fmt.Errorf("merge: %w", err)
	}
	r.paths = append(r.paths, path)
	o, err := Open(path)
	if err != nil {
		return nil, "", nil, 0, fmt.Errorf("open merged: %w", err)
	}
	r.toClose = append(r.toClose, o)
	r.Nodes = append(r.Nodes, &NodeResult{Plan: p, Seg: o, Path: path, NewNums: nums, Size: size})
	return o, path, nums, size, nil
}

// ChildJob is what BuildInChild hands to the child process.
type ChildJob struct {
	Batch     *spec.BatchSpec `json:"batch"`
	ChunkMode uint32          `json:"chunkMode"`
	Out       string          `json:"out"`
}

// ChildJobEnv names the environment variable through which the child finds its job file.
const ChildJobEnv = "VERIF_CHILD_JOB"

// BuildInChild has a fresh process (this test binary, running only TestVerifChildBuild) build the
// batch and persist it; it returns the path. Such a file is what a process finds after a restart:
// nothing process-wide (counters, random sources, pools) is shared with its writer.
func BuildInChild(b *spec.BatchSpec, chunkMode uint32) (string, error) {
	out := NewPath("child")
	job := out + ".job"
	data, err := json.Marshal(ChildJob{Batch: b, ChunkMode: chunkMode, Out: out})
	if err != nil {
		return "", err
	}
	if err := os.WriteFile(job, data, 0o600); err != nil {
		return "", err
	}
	defer os.Remove(job)
	cmd := exec.Command(os.Args[0], "-test.run=^TestVerifChildBuild$", "-test.count=1")
	cmd.Env = append(os.Environ(), ChildJobEnv+"="+job, "VERIF_STATS_OUT=", "VERIF_STATS_PERPID=")
	if outp, err := cmd.CombinedOutput(); err != nil {
		return "", fmt.Errorf("child process: %v: %s", err, outp)
	}
	if _, err := os.Stat(out); err != nil {
		return "", fmt.Errorf("child process wrote no file: %v", err)
	}
	return out, nil
}

// RunChildJob is the child's side.
func RunChildJob(jobPath string) error {
	data, err := os.ReadFile(jobPath)
	if err != nil {
		return err
	}
	var j ChildJob
	if err := json.Unmarshal(data, &j); err != nil {
		return err
	}
	seg, _, err := Build(j.Batch, j.ChunkMode)
	if err != nil {
		return err
	}
	defer seg.Close()
	return seg.(*zap.SegmentBase).Persist(j.Out)
}
