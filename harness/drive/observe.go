package drive

import (
	"fmt"
	"runtime/debug"

	"github.com/RoaringBitmap/roaring/v2"
	segment "github.com/blevesearch/scorch_segment_api/v2"

	"verifharness/spec"
)

// Safe runs f and converts a panic into an error (with a short stack).
func Safe(f func() error) (err error) {
	defer func() {
		if r := recover(); r != nil {
			st := debug.Stack()
			if len(st) > 1800 {
				st = st[:1800]
			}
			err = fmt.Errorf("PANIC: %v\n%s", r, st)
		}
	}()
	return f()
}

// CopyLocs copies the locations of a posting.
func CopyLocs(p segment.Posting) []spec.Loc {
	locs := p.Locations()
	if len(locs) == 0 {
		return nil
	}
	out := make([]spec.Loc, len(locs))
	for i, l := range locs {
		var ap []uint64
		if a := l.ArrayPositions(); len(a) > 0 {
			ap = append([]uint64(nil), a...)
		}
		out[i] = spec.Loc{Field: l.Field(), Pos: l.Pos(), Start: l.Start(), End: l.End(), AP: ap}
	}
	return out
}

// CopyHit copies a posting; full tells whether freq/norm/locs were requested.
func CopyHit(p segment.Posting) spec.Hit {
	h := spec.Hit{Doc: p.Number(), Freq: p.Frequency(), Locs: CopyLocs(p)}
	if h.Freq > 0 {
		h.Norm = p.Norm()
	}
	return h
}

// Hits drains a postings list with full detail.
func Hits(pl segment.PostingsList) ([]spec.Hit, error) {
	itr := pl.Iterator(true, true, true, nil)
	var out []spec.Hit
	for {
		p, err := itr.Next()
		if err != nil {
			return nil, err
		}
		if p == nil {
			return out, nil
		}
		out = append(out, CopyHit(p))
	}
}

// DictTerms enumerates a dictionary with a nil automaton and no range.
func DictTerms(d segment.TermDictionary) ([]string, []uint64, error) {
	itr := d.AutomatonIterator(nil, nil, nil)
	var terms []string
	var counts []uint64
	for {
		e, err := itr.Next()
		if err != nil {
			return nil, nil, err
		}
		if e == nil {
			return terms, counts, nil
		}
		terms = append(terms, e.Term)
		counts = append(counts, e.Count)
	}
}

// VisitStored collects all stored values of a document (copying the bytes).
func VisitStored(seg segment.Segment, n uint64) ([]spec.StoredVal, error) {
	var out []spec.StoredVal
	err := seg.VisitStoredFields(n, func(field string, typ byte, value []byte, pos []uint64) bool {
		var ap []uint64
		if len(pos) > 0 {
			ap = append([]uint64(nil), pos...)
		}
		out = append(out, spec.StoredVal{Field: field, Typ: typ, Val: append([]byte{}, value...), AP: ap})
		return true
	})
	return out, err
}

// Thesaurus observation for one thesaurus name (nil map if the field has none).
func ObserveThesaurus(seg segment.Segment, name string, except *roaring.Bitmap) (map[string][]spec.SynPair, []string, error) {
	ts, ok := seg.(segment.ThesaurusSegment)
	if !ok {
		return nil, nil, fmt.Errorf("segment %T is no ThesaurusSegment", seg)
	}
	th, err := ts.Thesaurus(name)
	if err != nil {
		return nil, nil, err
	}
	itr := th.AutomatonIterator(nil, nil, nil)
	out := map[string][]spec.SynPair{}
	var order []string
	for {
		e, err := itr.Next()
		if err != nil {
			return nil, nil, err
		}
		if e == nil {
			break
		}
		order = append(order, e.Term)
	}
	var key []byte // ONE key buffer, overwritten in place for every lookup (callers may do that)
	for _, t := range order {
		key = append(key[:0], t...)
		sl, err := th.SynonymsList(key, except, nil)
		if err != nil {
			return nil, nil, err
		}
		si := sl.Iterator(nil)
		for {
			s, err := si.Next()
			if err != nil {
				return nil, nil, err
			}
			if s == nil {
				break
			}
			out[t] = append(out[t], spec.SynPair{Syn: s.Term(), Doc: s.Number()})
		}
	}
	return out, order, nil
}

// CheckDictCounts makes Observe compare dictionary-entry counts with the
// postings lists (the C08 property); other checks leave it off so that a
// dictionary-count defect is attributed to C08 only.
var CheckDictCounts = false

// Observe extracts the full observation of a segment through its public API.
// It also cross-checks API-internal consistency that every caller relies on
// (dictionary order, dictionary counts vs. list counts); such an inconsistency
// is returned as an error string starting with "INCONSISTENT".
func Observe(seg segment.Segment) (o *spec.Obs, err error) {
	err = Safe(func() error {
		var e error
		o, e = observe(seg)
		return e
	})
	return o, err
}

func observe(seg segment.Segment) (*spec.Obs, error) {
	o := &spec.Obs{
		Count: seg.Count(),
		Index: map[string]map[string][]spec.Hit{},
		DV:    map[string]map[uint64][]string{},
		Thes:  map[string]map[string][]spec.SynPair{},
	}
	o.Fields = append([]string(nil), seg.Fields()...)
	for _, f := range o.Fields {
		d, err := seg.Dictionary(f)
		if err != nil {
			return nil, fmt.Errorf("Dictionary(%q): %w", f, err)
		}
		terms, counts, err := DictTerms(d)
		if err != nil {
			return nil, fmt.Errorf("Dictionary(%q) iteration: %w", f, err)
		}
		if d.Cardinality() != len(terms) {
			return nil, fmt.Errorf("INCONSISTENT: Dictionary(%q).Cardinality()=%d but iteration yields %d terms", f, d.Cardinality(), len(terms))
		}
		var key []byte // ONE key buffer per dictionary, overwritten in place for every lookup
		for i, t := range terms {
			key = append(key[:0], t...)
			if i > 0 && terms[i-1] >= t {
				return nil, fmt.Errorf("INCONSISTENT: Dictionary(%q) terms not strictly ascending: %q then %q", f, terms[i-1], t)
			}
			pl, err := d.PostingsList(key, nil, nil)
			if err != nil {
				return nil, fmt.Errorf("PostingsList(%q,%q): %w", f, t, err)
			}
			hits, err := Hits(pl)
			if err != nil {
				return nil, fmt.Errorf("iterate(%q,%q): %w", f, t, err)
			}
			if pl.Count() != uint64(len(hits)) {
				return nil, fmt.Errorf("INCONSISTENT: (%q,%q) Count()=%d but iteration yields %d hits", f, t, pl.Count(), len(hits))
			}
			if CheckDictCounts && counts[i] != uint64(len(hits)) {
				return nil, fmt.Errorf("INCONSISTENT: dictionary entry (%q,%q) Count=%d but postings list has %d hits", f, t, counts[i], len(hits))
			}
			ok, err := d.Contains(key)
			if err != nil || !ok {
				return nil, fmt.Errorf("INCONSISTENT: Contains(%q,%q)=%v,%v for an enumerated term", f, t, ok, err)
			}
			if o.Index[f] == nil {
				o.Index[f] = map[string][]spec.Hit{}
			}
			o.Index[f][t] = hits
		}
	}
	// stored
	o.Stored = make([][]spec.StoredVal, o.Count)
	for n := uint64(0); n < o.Count; n++ {
		st, err := VisitStored(seg, n)
		if err != nil {
			return nil, fmt.Errorf("VisitStoredFields(%d): %w", n, err)
		}
		o.Stored[n] = st
	}
	// doc values
	if dvs, ok := seg.(segment.DocValueVisitable); ok {
		fields, err := dvs.VisitableDocValueFields()
		if err != nil {
			return nil, err
		}
		o.DVFields = append([]string(nil), fields...)
		// ask for every field, not just the listed ones: non-dv fields must yield nothing
		all := o.Fields
		var st segment.DocVisitState
		for n := uint64(0); n < o.Count; n++ {
			st, err = dvs.VisitDocValues(n, all, func(field string, term []byte) {
				if o.DV[field] == nil {
					o.DV[field] = map[uint64][]string{}
				}
				o.DV[field][n] = append(o.DV[field][n], string(term))
			}, st)
			if err != nil {
				return nil, fmt.Errorf("VisitDocValues(%d): %w", n, err)
			}
		}
		// duplicates are a violation of "one callback per term": keep them visible (no dedup)
	}
	// thesauri
	if _, ok := seg.(segment.ThesaurusSegment); ok {
		for _, f := range o.Fields {
			th, _, err := ObserveThesaurus(seg, f, nil)
			if err != nil {
				return nil, fmt.Errorf("Thesaurus(%q): %w", f, err)
			}
			if len(th) > 0 {
				o.Thes[f] = th
			}
		}
	}
	o.Normalize()
	return o, nil
}
