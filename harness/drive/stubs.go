// Package drive turns specifications into fresh index.Document stubs, drives
// the real zapx code built from /repo and extracts observations through the
// public segment API.
package drive

import (
	"fmt"

	index "github.com/blevesearch/bleve_index_api"

	"verifharness/spec"
)

// ---- documents -----------------------------------------------------------

type stubDoc struct {
	id        string
	fields    []index.Field
	composite []index.CompositeField
}

func (s *stubDoc) ID() string                { return s.id }
func (s *stubDoc) Size() int                 { return 0 }
func (s *stubDoc) HasComposite() bool        { return len(s.composite) > 0 }
func (s *stubDoc) NumPlainTextBytes() uint64 { return 0 }
func (s *stubDoc) AddIDField()               {}
func (s *stubDoc) StoredFieldsBytes() uint64 { return 0 }
func (s *stubDoc) Indexed() bool             { return true }
func (s *stubDoc) VisitFields(v index.FieldVisitor) {
	for _, f := range s.fields {
		v(f)
	}
}
func (s *stubDoc) VisitComposite(v index.CompositeFieldVisitor) {
	for _, f := range s.composite {
		v(f)
	}
}

type stubSynDoc struct{ stubDoc }

func (s *stubSynDoc) VisitSynonymFields(v index.SynonymFieldVisitor) {
	for _, f := range s.fields {
		if sf, ok := f.(index.SynonymField); ok {
			v(sf)
		}
	}
}

// ---- fields --------------------------------------------------------------

type stubField struct {
	name    string
	value   []byte
	ap      []uint64
	typ     byte
	options index.FieldIndexingOptions
	length  int
	freqs   index.TokenFrequencies
}

func (s *stubField) Name() string                                     { return s.name }
func (s *stubField) Value() []byte                                    { return s.value }
func (s *stubField) ArrayPositions() []uint64                         { return s.ap }
func (s *stubField) EncodedFieldType() byte                           { return s.typ }
func (s *stubField) Analyze()                                         {}
func (s *stubField) Options() index.FieldIndexingOptions              { return s.options }
func (s *stubField) AnalyzedLength() int                              { return s.length }
func (s *stubField) AnalyzedTokenFrequencies() index.TokenFrequencies { return s.freqs }
func (s *stubField) NumPlainTextBytes() uint64                        { return 0 }
func (s *stubField) Compose(string, int, index.TokenFrequencies)      {}

type stubSynField struct {
	name string
	defs []spec.SynDef
}

func (s *stubSynField) Name() string                                     { return s.name }
func (s *stubSynField) Value() []byte                                    { return nil }
func (s *stubSynField) ArrayPositions() []uint64                         { return nil }
func (s *stubSynField) EncodedFieldType() byte                           { return 0 }
func (s *stubSynField) Analyze()                                         {}
func (s *stubSynField) Options() index.FieldIndexingOptions              { return 0 }
func (s *stubSynField) AnalyzedLength() int                              { return 0 }
func (s *stubSynField) AnalyzedTokenFrequencies() index.TokenFrequencies { return nil }
func (s *stubSynField) NumPlainTextBytes() uint64                        { return 0 }
func (s *stubSynField) IterateSynonyms(visitor func(term string, synonyms []string)) {
	for _, d := range s.defs {
		syns := make([]string, len(d.Syns))
		for i, x := range d.Syns {
			syns[i] = string(x)
		}
		visitor(string(d.Term), syns)
	}
}

// stubVecField implements index.VectorField (an interface that only exists
// under the vectors tag; the methods are harmless without it).
type stubVecField struct {
	name string
	vec  spec.VecSpec
}

func (s *stubVecField) Name() string                                     { return s.name }
func (s *stubVecField) Value() []byte                                    { return nil }
func (s *stubVecField) ArrayPositions() []uint64                         { return nil }
func (s *stubVecField) EncodedFieldType() byte                           { return 'v' }
func (s *stubVecField) Analyze()                                         {}
func (s *stubVecField) Options() index.FieldIndexingOptions              { return index.IndexField }
func (s *stubVecField) AnalyzedLength() int                              { return 0 }
func (s *stubVecField) AnalyzedTokenFrequencies() index.TokenFrequencies { return nil }
func (s *stubVecField) NumPlainTextBytes() uint64                        { return 0 }
func (s *stubVecField) Vector() []float32                                { return s.vec.Data }
func (s *stubVecField) Dims() int                                        { return s.vec.Dim }
func (s *stubVecField) Similarity() string                               { return s.vec.Metric }
func (s *stubVecField) IndexOptimizedFor() string                        { return s.vec.Opt }

// stubGeoField implements index.GeoShapeField on top of a text field.
type stubGeoField struct {
	*stubField
	shape []byte
}

func (s *stubGeoField) GeoShape() (index.GeoJSON, error) { return nil, nil }
func (s *stubGeoField) EncodedShape() []byte             { return s.shape }

func textOrGeoField(f *spec.FieldSpec) index.Field {
	tf := textField(f)
	if f.Shape != nil {
		return &stubGeoField{stubField: tf, shape: append([]byte(nil), f.Shape...)}
	}
	return tf
}

func textField(f *spec.FieldSpec) *stubField {
	opts := index.IndexField
	if f.Stored {
		opts |= index.StoreField
	}
	if f.DV {
		opts |= index.DocValues
	}
	freqs := make(index.TokenFrequencies, len(f.Tokens))
	hasLocs := false
	for i := range f.Tokens {
		t := &f.Tokens[i]
		if _, dup := freqs[string(t.Term)]; dup {
			panic(fmt.Sprintf("drive: duplicate term %q in one field instance %q", t.Term, f.Name))
		}
		tf := &index.TokenFreq{Term: []byte(t.Term)}
		tf.SetFrequency(t.Freq)
		for _, l := range t.Locs {
			hasLocs = true
			var ap []uint64
			if len(l.AP) > 0 {
				ap = append([]uint64(nil), l.AP...)
			}
			tf.Locations = append(tf.Locations, &index.TokenLocation{
				Field: l.Field, ArrayPositions: ap, Start: l.Start, End: l.End, Position: l.Pos,
			})
		}
		freqs[string(t.Term)] = tf
	}
	if hasLocs {
		opts |= index.IncludeTermVectors
	}
	var ap []uint64
	if len(f.AP) > 0 {
		ap = append([]uint64(nil), f.AP...)
	}
	return &stubField{
		name: f.Name, value: append([]byte(nil), f.Value...), ap: ap, typ: f.Type,
		options: opts, length: f.Len, freqs: freqs,
	}
}

// Docs builds FRESH document stubs for a batch. zapx merges token frequencies
// into the input objects while building, so stubs are never reused.
func Docs(b *spec.BatchSpec) []index.Document {
	all := b.AllDocs()
	out := make([]index.Document, 0, len(all))
	for i := range all {
		out = append(out, Doc(&all[i]))
	}
	return out
}

// Doc builds one fresh document stub.
func Doc(d *spec.DocSpec) index.Document {
	sd := stubDoc{id: string(d.ID)}
	for i := range d.Composite {
		sd.composite = append(sd.composite, textField(&d.Composite[i]))
	}
	eff := d.EffFields()
	syn := false
	for i := range eff {
		f := &eff[i]
		switch f.Kind {
		case spec.KindSyn:
			syn = true
			sd.fields = append(sd.fields, &stubSynField{name: f.Name, defs: f.Syn})
		case spec.KindVec:
			sd.fields = append(sd.fields, &stubVecField{name: f.Name, vec: *f.Vec})
		default:
			sd.fields = append(sd.fields, textOrGeoField(f))
		}
	}
	if syn {
		return &stubSynDoc{sd}
	}
	return &sd
}
