package checks

import (
	"errors"
	"fmt"
	"os"
	"path/filepath"
	"sync"
	"testing"
	"time"

	"github.com/RoaringBitmap/roaring/v2"
	segment "github.com/blevesearch/scorch_segment_api/v2"
	zap "github.com/blevesearch/zapx/v16"
	"pgregory.net/rapid"

	"verifharness/drive"
	"verifharness/gen"
	"verifharness/spec"
	"verifharness/stats"
)

// C18 — a cancelled merge never leaves or reports a partial file.

type cancelCase struct {
	Plan    *spec.MergePlan `json:"plan"`
	BufSize int             `json:"bufSize"`
	Spins   []uint16        `json:"spins"` // asynchronous closers: spin counts before closing
	// DVChunk: doc-value chunk size for the whole case (0 = default 1024); small values make the
	// doc-value phase of a merge write chunk by chunk, so closure points fall inside it
	DVChunk uint32 `json:"dvChunk,omitempty"`
}

func genCancelCase(t *rapid.T) cancelCase {
	pc := genPlanCase(t, planGenOpts{synonyms: 1, vectors: vectorsMaybe, forceDV: true, wide: true, widePct: 6, chunkModes: true})
	var dvChunk uint32
	if gen.Chance(t, "smallDVChunk", 40) {
		dvChunk = rapid.SampledFrom([]uint32{1, 2, 3}).Draw(t, "dvChunk")
	}
	return cancelCase{
		DVChunk: dvChunk,
		Plan:    pc.Plan,
		BufSize: rapid.SampledFrom([]int{64, 1, 7, 4096, 1 << 20}).Draw(t, "bufSize"),
		Spins:   rapid.SliceOfN(rapid.Uint16(), 2, 6).Draw(t, "spins"),
	}
}

// closingReporter closes ch at the k-th ReportBytesWritten call (1-based; 0 = never).
type closingReporter struct {
	k     int
	calls int
	ch    chan struct{}
	once  sync.Once
}

func (r *closingReporter) ReportBytesWritten(uint64) {
	r.calls++
	if r.k > 0 && r.calls == r.k {
		r.once.Do(func() { close(r.ch) })
	}
}

var lastAttemptSize int // size of the file written by the most recent successful attempt

var cancelStats struct {
	merges, errClosed, completed int64
	deciles                      [10]int64 // closure points (k/W) that produced ErrClosed
}

func runCancelCase(c cancelCase) *Violation {
	const prop = "C18"
	oldBuf := zap.DefaultFileMergerBufferSize
	zap.DefaultFileMergerBufferSize = c.BufSize
	defer func() { zap.DefaultFileMergerBufferSize = oldBuf }()
	if c.DVChunk != 0 {
		oldDV := zap.LegacyChunkMode
		zap.LegacyChunkMode = c.DVChunk
		defer func() { zap.LegacyChunkMode = oldDV }()
	}

	root := c.Plan
	var res []*drive.PlanResult
	defer func() {
		for _, r := range res {
			r.Close()
		}
	}()
	segs := make([]segment.Segment, len(root.Children))
	drops := make([]*roaring.Bitmap, len(root.Children))
	for i := range root.Children {
		var r *drive.PlanResult
		if err := drive.Safe(func() error {
			var e error
			r, e = drive.RunPlan(&root.Children[i])
			return e
		}); err != nil {
			return violation(prop, "inputs/error", "%v", err)
		}
		res = append(res, r)
		segs[i] = r.Seg
		drops[i] = drive.Bitmap(root.Drops[i])
	}
	r := spec.Resolve(root)
	want := spec.ExpectResolved(r)
	opts := spec.DiffOpts{DVFieldsSub: true, FieldsAnyOf: [][]string{r.Fields, r.FieldsAlt}}
	if r.ZeroSurvivors {
		opts.FieldsAnyOf = [][]string{nil, r.UnionFields, r.FieldsAlt}
	}

	fakeReset()
	baseline := fakeLive()

	// one attempt with a given closure plan; returns a violation or nil
	attempt := func(desc string, ch chan struct{}, rep segment.StatsReporter, mustClose bool) (closed bool, v *Violation) {
		// the destination lives in a directory of its own: nothing else may appear next to it
		dir := drive.NewDir("c18")
		defer os.RemoveAll(dir)
		path := filepath.Join(dir, "merged.zap")
		var size uint64
		err := drive.Safe(func() error {
			var e error
			_, size, e = drive.Merge(segs, drops, path, root.ChunkMode, ch, rep)
			return e
		})
		cancelStats.merges++
		_, serr := os.Stat(path)
		if err != nil {
			if !errors.Is(err, segment.ErrClosed) {
				return false, violation(prop, "cancel/other-error", "%s: Merge returned %v, expected nil or the closed error", desc, err)
			}
			if serr == nil {
				return true, violation(prop, "cancel/file-left-behind", "%s: Merge returned the closed error but left a file at the path", desc)
			}
			if left := drive.ListDir(dir); len(left) != 0 {
				return true, violation(prop, "cancel/file-left-behind", "%s: Merge returned the closed error but left %q in the destination directory", desc, left)
			}
			cancelStats.errClosed++
			if !waitLive(baseline) {
				return true, violation(prop, "cancel/index-leak", "%s: after a cancelled merge %d native vector indexes are still alive (baseline %d)", desc, fakeLive(), baseline)
			}
			return true, nil
		}
		if mustClose {
			return false, violation(prop, "cancel/preclosed-success", "%s: the channel was closed before the call but Merge returned nil", desc)
		}
		cancelStats.completed++
		if serr != nil {
			return false, violation(prop, "cancel/success-without-file", "%s: Merge returned nil but there is no file: %v", desc, serr)
		}
		if left := drive.ListDir(dir); len(left) != 1 {
			return false, violation(prop, "cancel/stray-file", "%s: Merge returned nil and the destination directory holds %q", desc, left)
		}
		data, _ := os.ReadFile(path)
		lastAttemptSize = len(data)
		if uint64(len(data)) != size {
			return false, violation(prop, "cancel/success-size", "%s: Merge reported %d bytes, file has %d", desc, size, len(data))
		}
		if v := checkFooter(prop, data, want.Count, effMode(root.ChunkMode)); v != nil {
			v.Signature = "cancel/success-" + v.Signature
			v.Message = desc + ": " + v.Message
			return false, v
		}
		if v := reopenAndCompare(prop, path, want, opts); v != nil {
			v.Signature = "cancel/success-" + v.Signature
			v.Message = desc + ": " + v.Message
			return false, v
		}
		if !waitLive(baseline) {
			return false, violation(prop, "cancel/index-leak", "%s: after a completed merge %d native vector indexes are still alive (baseline %d)", desc, fakeLive(), baseline)
		}
		return false, nil
	}

	// uncancelled run: count the reports
	rep0 := &closingReporter{ch: make(chan struct{})}
	if _, v := attempt("never closed", rep0.ch, rep0, false); v != nil {
		return v
	}
	w := rep0.calls
	size0 := lastAttemptSize
	// closed before the call
	pre := make(chan struct{})
	close(pre)
	if _, v := attempt("closed before the call", pre, nil, true); v != nil {
		return v
	}
	// closed at the k-th report, every k (sampled when large)
	maxPoints := 120
	if os.Getenv("VERIF_TIER") == "thorough" {
		maxPoints = 400
	}
	step := 1
	if w > maxPoints {
		step = w/maxPoints + 1
	}
	nClosed := 0
	var ks []int
	for k := 1; k <= w; k += step {
		ks = append(ks, k)
	}
	if step > 1 {
		// the tail of the run (doc values of the last fields, later sections, footer) write by write
		for k := max(1, w-150); k <= w; k++ {
			if (k-1)%step != 0 {
				ks = append(ks, k)
			}
		}
	}
	for _, k := range ks {
		rep := &closingReporter{k: k, ch: make(chan struct{})}
		closed, v := attempt(fmt.Sprintf("closed at report %d of %d (buffer %d)", k, w, c.BufSize), rep.ch, rep, false)
		if v != nil {
			return v
		}
		if closed {
			cancelStats.deciles[(k-1)*10/w]++
			nClosed++
			// a small unrelated merge right after a cancellation (every 15th one): whatever
			// the cancelled merge left in process-wide state must not leak into it
			if nClosed%15 == 1 {
				if v := canaryMerge(prop); v != nil {
					v.Message = fmt.Sprintf("after the merge cancelled at report %d of %d: %s", k, w, v.Message)
					return v
				}
			}
		}
	}
	// closed at the j-th vector-engine operation (vectors tag only)
	if nOps := fakeOpCount(); nOps > 0 {
		fakeReset()
		// count the ops of one uncancelled merge
		var ops int64
		fakeOnOp(func(string) { ops++ })
		if _, v := attempt("never closed (counting engine ops)", nil, nil, false); v != nil {
			fakeOnOp(nil)
			return v
		}
		total := ops
		// the order in which a merge writes its sections varies from call to call, and with it
		// what still follows an engine operation: every closure point is tried several times
		reps := int64(24)
		if total > 40 {
			reps = 3
		} else if total > 20 {
			reps = 6
		}
		for jj := int64(0); jj < reps*min(total, 60); jj++ {
			j := jj%min(total, 60) + 1
			ch := make(chan struct{})
			var seen int64
			var once sync.Once
			fakeOnOp(func(string) {
				seen++
				if seen == j {
					once.Do(func() { close(ch) })
				}
			})
			_, v := attempt(fmt.Sprintf("closed at vector-engine operation %d of %d", j, total), ch, nil, false)
			if v != nil {
				fakeOnOp(nil)
				return v
			}
		}
		fakeOnOp(nil)
	}
	// closure combined with a write failure that is reported only by the final sync (FIFO destination,
	// outputs up to 256 KiB): whichever error is reported, nothing stays at the path
	if size0 <= 256<<10 {
		for _, k := range []int{w, w - 1, w - 2, w / 2, 1, 0} {
			if k < 0 {
				continue
			}
			p3, ok := syncFaultPath("c18s")
			if !ok {
				break
			}
			rep := &closingReporter{k: k, ch: make(chan struct{})}
			err := drive.Safe(func() error {
				_, _, e := drive.Merge(segs, drops, p3, root.ChunkMode, rep.ch, rep)
				return e
			})
			_, serr := os.Lstat(p3)
			os.Remove(p3)
			cancelStats.merges++
			if err == nil {
				return violation(prop, "cancel/sync-fault-swallowed", "closed at report %d of %d with a destination whose sync fails: Merge returned nil", k, w)
			}
			if serr == nil {
				return violation(prop, "cancel/file-left-behind", "closed at report %d of %d with a destination whose sync fails: Merge returned %v but left something at the path", k, w, err)
			}
		}
	}
	// a chunk mode the format does not know (reachable through the exported default): whatever
	// the merge reports, an error never comes with a file, and a channel closed before the call
	// still means the closed error
	for _, bad := range []uint32{1027, 70000} {
		for _, preClosed := range []bool{false, true} {
			dir := drive.NewDir("c18b")
			path := filepath.Join(dir, "merged.zap")
			ch := make(chan struct{})
			if preClosed {
				close(ch)
			}
			err := drive.Safe(func() error {
				_, _, e := zap.VerifMergeWithChunkMode(segs, drops, path, bad, ch, nil)
				return e
			})
			left := drive.ListDir(dir)
			os.RemoveAll(dir)
			cancelStats.merges++
			if preClosed && !errors.Is(err, segment.ErrClosed) {
				return violation(prop, "cancel/preclosed-other-result", "chunk mode %d, channel closed before the call: Merge returned %v, expected the closed error", bad, err)
			}
			if err != nil && len(left) != 0 {
				return violation(prop, "cancel/file-left-behind", "chunk mode %d (closed before the call: %v): Merge returned %v but left %q in the destination directory", bad, preClosed, err, left)
			}
		}
	}
	// a cancelled merge must leave nothing behind in the process either: a small, unrelated
	// merge right after all those cancellations must be complete and correct
	if v := canaryMerge(prop); v != nil {
		return v
	}
	// asynchronous closers (schedule sampling)
	for _, spin := range c.Spins {
		ch := make(chan struct{})
		done := make(chan struct{})
		go func(n int) {
			x := 0
			for i := 0; i < n*4; i++ {
				x += i
			}
			_ = x
			close(ch)
			close(done)
		}(int(spin))
		_, v := attempt(fmt.Sprintf("closed asynchronously after %d spins", spin), ch, nil, false)
		<-done
		if v != nil {
			return v
		}
	}
	return nil
}

// canaryMerge merges two tiny fixed segments and checks the result against the model.
func canaryMerge(prop string) *Violation {
	mk := func(id, term string) *spec.BatchSpec {
		return &spec.BatchSpec{Docs: []spec.DocSpec{{ID: spec.B(id), Fields: []spec.FieldSpec{{Name: "c", Type: 't', Stored: true, DV: true, Value: []byte(term), Len: 2,
			Tokens: []spec.TokenSpec{{Term: spec.B(term), Freq: 2, Locs: []spec.LocSpec{{Pos: 1, Start: 0, End: 3}, {Pos: 2, Start: 4, End: 7}}}}}}}}}
	}
	plan := &spec.MergePlan{Children: []spec.MergePlan{{Leaf: mk("k1", "foo")}, {Leaf: mk("k2", "bar"), Mmap: true}, {Leaf: mk("k3", "foo")}},
		Drops: []spec.DropSpec{{Nil: true}, {}, {Nil: true}}}
	var res *drive.PlanResult
	if err := drive.Safe(func() error {
		var e error
		res, e = drive.RunPlan(plan)
		return e
	}); err != nil {
		return violation(prop, "cancel/later-merge-broken", "a small merge right after the cancelled merges failed: %v", err)
	}
	defer res.Close()
	want := spec.ExpectResolved(spec.Resolve(plan))
	got, err := drive.Observe(res.Seg)
	if err != nil {
		return violation(prop, "cancel/later-merge-broken", "a small merge right after the cancelled merges cannot be read: %v", err)
	}
	if d := spec.Diff(want, got, spec.DiffOpts{DVFieldsSub: true}); d != "" {
		return violation(prop, "cancel/later-merge-broken", "a small merge right after the cancelled merges is wrong: %s", d)
	}
	return nil
}

// waitLive waits (bounded, generously: index closers run in their own
// goroutines and the machine may be busy) for the live-index count to return
// to the baseline. Only a genuine leak pays the full wait.
func waitLive(baseline int64) bool {
	deadline := time.Now().Add(10 * time.Second)
	sleep := 200 * time.Microsecond
	for {
		if fakeLive() <= baseline {
			return true
		}
		if time.Now().After(deadline) {
			return fakeLive() <= baseline
		}
		time.Sleep(sleep)
		if sleep < 20*time.Millisecond {
			sleep *= 2
		}
	}
}

var c18 = Check[cancelCase]{
	Property: "C18", Stage: "cancel",
	Gen: genCancelCase, Run: runCancelCase,
	Classify: func(c cancelCase) (bool, []string) {
		r := spec.Resolve(c.Plan)
		cl := []string{fmt.Sprintf("buf=%d", c.BufSize)}
		if c.DVChunk != 0 {
			cl = append(cl, "doc-value-chunks-of-1..3-docs")
		}
		o := spec.ExpectResolved(r)
		if len(o.Thes) > 0 {
			cl = append(cl, "thesaurus-phase")
		}
		if len(o.DV) > 0 {
			cl = append(cl, "dv-phase")
		}
		if len(o.Vec) > 0 {
			cl = append(cl, "vector-phase")
		}
		return len(r.Docs) > 0, cl
	},
	Extra: func() map[string]any {
		m := map[string]any{"merges_executed": cancelStats.merges, "returned_closed_error": cancelStats.errClosed, "completed_despite_closure": cancelStats.completed}
		for i, n := range cancelStats.deciles {
			m[fmt.Sprintf("closed_error_at_progress_%d0-%d0pct", i, i+1)] = n
		}
		return m
	},
}

func TestC18(t *testing.T) { c18.Rapid(t) }

func init() { c18.register() }

// Deterministic plan: three inputs (built, re-opened, built) that all carry vectors in the same
// field - so that the merge reads and reconstructs several indexes for one field - cancelled at
// every write report and, under the vectors tag, at every engine operation (each several times).
func TestC18Fixed(t *testing.T) {
	col := stats.New("C18", "cancel")
	defer col.Write()
	mk := func(tag string, n int) *spec.BatchSpec {
		b := &spec.BatchSpec{}
		for i := 0; i < n; i++ {
			b.Docs = append(b.Docs, spec.DocSpec{ID: spec.B(fmt.Sprintf("%s%02d", tag, i)), Fields: []spec.FieldSpec{
				{Name: "body", Type: 't', Stored: true, DV: true, Value: []byte(tag), Len: 1, Tokens: []spec.TokenSpec{{Term: spec.B(tag), Freq: 1}}},
				{Name: "vec", Kind: spec.KindVec, Vec: &spec.VecSpec{Dim: 2, Data: []float32{float32(i), float32(len(tag) + n)}, Metric: "l2_norm", Opt: "recall"}},
			}})
		}
		return b
	}
	c := cancelCase{BufSize: 64, Spins: []uint16{1, 50}, Plan: &spec.MergePlan{
		Children: []spec.MergePlan{{Leaf: mk("a", 4)}, {Leaf: mk("bb", 3), Mmap: true}, {Leaf: mk("ccc", 5)}},
		Drops:    []spec.DropSpec{{Nil: true}, {Docs: []uint32{1}}, {Nil: true}}}}
	col.CaseHash(stats.HashJSON("fixed-three-vector-inputs"), true, []string{"vector-phase", "three-inputs-with-vectors-in-one-field"}, func() any { return sampleOf(c) })
	reportBig(t, col, "C18", "cancel", c, safeRun(c18, c))
}
