package checks

import (
	"bytes"
	"fmt"
	"os"
	"testing"

	segment "github.com/blevesearch/scorch_segment_api/v2"
	zap "github.com/blevesearch/zapx/v16"
	"pgregory.net/rapid"

	"verifharness/drive"
	"verifharness/gen"
	"verifharness/indep"
	"verifharness/spec"
	"verifharness/stats"
)

// C04, targeted stage: section offsets on the varint-length boundaries of the
// per-field section records (a doc-value block starting at 127/128, 16383/16384,
// 32767, ... bytes), reached by padding one stored value, because the in-memory
// and the file loader decode those records with different code.

type offsetCase struct {
	Batch     *spec.BatchSpec `json:"batch"`
	ChunkMode uint32          `json:"chunkMode"`
	Target    uint64          `json:"target"` // wanted file offset of the first doc-value block of Field
	Field     string          `json:"field"`
}

const padField = "aa_pad"

func genOffsetCase(t *rapid.T) offsetCase {
	o := gen.DefaultSchemaOpts()
	o.ForceDV = true
	o.MinFields = 2
	s := gen.GenSchema(t, o)
	s.BigValues = false
	b := s.GenBatch(t, "b", gen.BatchOpts{MaxDocs: 6, MinDocs: 2})
	var dvFields []string
	for _, f := range s.Fields {
		if f.DV {
			dvFields = append(dvFields, f.Name)
		}
	}
	if gen.Chance(t, "imageLength", 35) {
		// Field "" = the length of the whole image (data + 52-byte footer) is placed instead: on and
		// around the sizes of the write buffers in play (4 KiB bufio default, 64 KiB, the 1 MiB
		// merge/persist buffer), with the footer straddling them
		base := rapid.SampledFrom([]uint64{4096, 1 << 20, 65536, 8192}).Draw(t, "lenBase")
		delta := rapid.SampledFrom([]int{1, 26, 51, 0, 52, -1, 53}).Draw(t, "lenDelta")
		return offsetCase{Batch: b, ChunkMode: gen.ChunkMode(t, "cm"), Target: uint64(int(base) + delta), Field: ""}
	}
	return offsetCase{Batch: b, ChunkMode: gen.ChunkMode(t, "cm"),
		Target: rapid.SampledFrom([]uint64{16383 + 16384, 16383, 16384, 16385, 32767 + 16384, 2097151, 32768}).Draw(t, "target"),
		Field:  rapid.SampledFrom(dvFields).Draw(t, "field")}
}

func padValue(n int) []byte {
	v := make([]byte, n)
	x := uint32(2463534242)
	for i := range v {
		x ^= x << 13
		x ^= x >> 17
		x ^= x << 5
		v[i] = byte(x >> 11)
	}
	return v
}

// withPad returns the batch with a stored, unindexed pad value of n bytes in its first document.
func withPad(b *spec.BatchSpec, n int) *spec.BatchSpec {
	nb := &spec.BatchSpec{Docs: append([]spec.DocSpec(nil), b.Docs...)}
	d := nb.Docs[0]
	d.Fields = append(append([]spec.FieldSpec(nil), d.Fields...), spec.FieldSpec{Name: padField, Type: 't', Stored: true, Value: padValue(n)})
	nb.Docs[0] = d
	return nb
}

var offsetStats struct{ placed, notPlaced int64 }

func dvStartOf(data []byte, field string) (uint64, bool) {
	f, err := indep.Decode(data)
	if err != nil {
		return 0, false
	}
	for _, fi := range f.Fields {
		if fi.Name == field && fi.HasDocValues {
			return fi.DVStart, true
		}
	}
	return 0, false
}

func runOffsetCase(c offsetCase) *Violation {
	const prop = "C04"
	// search the pad length that puts the field's doc-value block at the target offset
	pad := 0
	var seg segment.Segment
	var data []byte
	var batch *spec.BatchSpec
	placed := false
	for iter := 0; iter < 8; iter++ {
		batch = withPad(c.Batch, pad)
		var s segment.Segment
		var dataLen uint64
		if err := drive.Safe(func() error {
			var e error
			s, dataLen, e = drive.Build(batch, c.ChunkMode)
			return e
		}); err != nil {
			return violation(prop, "build/error", "%v", err)
		}
		var buf bytes.Buffer
		if _, err := s.(*zap.SegmentBase).WriteTo(&buf); err != nil {
			s.Close()
			return violation(prop, "persist/error", "WriteTo: %v", err)
		}
		start, ok := dvStartOf(buf.Bytes(), c.Field)
		if c.Field == "" {
			// steered by the size the build reports, not by what WriteTo emitted
			start, ok = dataLen+uint64(zap.FooterSize), true
			if uint64(buf.Len()) != start {
				s.Close()
				return violation(prop, "writeto/length", "the build reports %d data bytes, WriteTo emitted %d bytes instead of data + %d footer bytes", dataLen, buf.Len(), zap.FooterSize)
			}
		}
		if !ok {
			s.Close()
			offsetStats.notPlaced++
			return nil // the field has no doc-value block in this batch: nothing to place
		}
		if start == c.Target {
			seg, data, placed = s, buf.Bytes(), true
			break
		}
		s.Close()
		if start > c.Target && pad == 0 {
			offsetStats.notPlaced++
			return nil // already beyond the target without padding
		}
		np := pad + int(c.Target) - int(start)
		if np < 0 {
			np = 0
		}
		if np == pad {
			break
		}
		pad = np
	}
	if !placed {
		offsetStats.notPlaced++
		return nil
	}
	offsetStats.placed++
	defer seg.Close()
	want := spec.Expect(batch)
	memObs, err := drive.Observe(seg)
	if err != nil {
		return violation(prop, "observe-mem/error", "%v", err)
	}
	if d := spec.Diff(want, memObs, spec.DiffOpts{}); d != "" {
		return violation(prop, "mem-vs-model", "in-memory segment: %s", d)
	}
	path, err := drive.Persist(seg, "c04o")
	defer removeFile(path)
	if err != nil {
		return violation(prop, "persist/error", "%v", err)
	}
	if v := checkFooter(prop, data, want.Count, effMode(c.ChunkMode)); v != nil {
		return v
	}
	if fileData, err := os.ReadFile(path); err != nil || !bytes.Equal(fileData, data) {
		return violation(prop, "persist-vs-writeto", "image of %d bytes: Persist wrote %d bytes (%v), WriteTo %d; they must be the same bytes", len(data), len(fileData), err, len(data))
	}
	var opened segment.Segment
	if err := drive.Safe(func() error {
		var e error
		opened, e = drive.Open(path)
		return e
	}); err != nil {
		return violation(prop, "open/error", "%v", err)
	}
	defer opened.Close()
	mmObs, err := drive.Observe(opened)
	if err != nil {
		return violation(prop, "observe-mmap/error", "%v", err)
	}
	if d := spec.Diff(memObs, mmObs, spec.DiffOpts{}); d != "" {
		return violation(prop, "mem-vs-mmap", "doc-value block of %q placed at file offset %d: the opened segment differs from the in-memory one: %s", c.Field, c.Target, d)
	}
	return nil
}

var c04offsets = Check[offsetCase]{
	Property: "C04", Stage: "offset-boundaries",
	Gen: genOffsetCase, Run: runOffsetCase,
	Classify: func(c offsetCase) (bool, []string) {
		if c.Field == "" {
			return true, []string{fmt.Sprintf("image-length=%d", c.Target)}
		}
		return true, []string{fmt.Sprintf("target=%d", c.Target)}
	},
	Extra: func() map[string]any {
		return map[string]any{"cases_with_block_placed_exactly": offsetStats.placed, "cases_not_placeable": offsetStats.notPlaced}
	},
}

func init() { c04offsets.register() }

func TestC04Offsets(t *testing.T) { c04offsets.Rapid(t) }

// Deterministic part: one fixed batch, its image length placed on every (buffer size, delta)
// combination, so that each run covers the footer straddling each buffer size.
func TestC04Lengths(t *testing.T) {
	col := stats.New("C04", "offset-boundaries")
	defer col.Write()
	b := &spec.BatchSpec{}
	for i := 0; i < 3; i++ {
		b.Docs = append(b.Docs, spec.DocSpec{ID: spec.B(fmt.Sprintf("L%d", i)), Fields: []spec.FieldSpec{{Name: "f", Type: 't', Stored: true, DV: true, Value: []byte("v"), Len: 2,
			Tokens: []spec.TokenSpec{{Term: "x", Freq: 1, Locs: []spec.LocSpec{{Pos: 1, Start: 0, End: 1}}}, {Term: spec.B(fmt.Sprintf("y%d", i)), Freq: 1}}}}})
	}
	before := offsetStats.placed
	for _, base := range []int{4096, 65536, 1 << 20} {
		for _, delta := range []int{1, 26, 51, 52, 0, -1} {
			c := offsetCase{Batch: b, ChunkMode: 0, Target: uint64(base + delta), Field: ""}
			col.CaseHash(stats.HashJSON([]int{base, delta}), true, []string{"image-length-fixed"}, func() any { return map[string]int{"imageLength": base + delta} })
			reportBig(t, col, "C04", "offset-boundaries", c, safeRun(c04offsets, c))
		}
	}
	col.SetExtra("fixed_image_lengths_placed_exactly", offsetStats.placed-before)
}
