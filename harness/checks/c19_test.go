//go:build vectors

package checks

import (
	"fmt"
	"os"
	"path/filepath"
	"sync"
	"testing"

	"github.com/RoaringBitmap/roaring/v2"
	faiss "github.com/blevesearch/go-faiss"
	segment "github.com/blevesearch/scorch_segment_api/v2"
	"pgregory.net/rapid"

	"verifharness/drive"
	"verifharness/gen"
	"verifharness/spec"
	"verifharness/stats"
)

// C19 — vector-engine failures surface as errors, never as silently missing vectors.

var engineOps = []string{"IndexFactory", "SetDirectMap", "Train", "AddWithIDs", "WriteIndexIntoBuffer", "ReadIndexFromBuffer", "ReconstructBatch"}

type engineFaultCase struct {
	Plan *spec.MergePlan `json:"plan"` // root inner node = merge scenario; a leaf plan = build scenario
	// Reserved: the merge destination already exists as an empty file (name reserved by the caller)
	Reserved bool `json:"reserved,omitempty"`
}

var engineFaultStats struct {
	faulted, afterFirstIndex, buildFaults, mergeFaults, withCancel int64
}

func genEngineFaultCase(t *rapid.T) engineFaultCase {
	pc := genVecPlanCase(t)
	if gen.Chance(t, "clusteredScenario", 30) {
		// IVF-only engine calls (SetDirectMap, Train) occur only at >= 1000 vectors
		var first *spec.MergePlan
		hasWide := false
		walkPlan(pc.Plan, func(n *spec.MergePlan) {
			if n.IsLeaf() {
				if first == nil {
					first = n
				}
				if n.Leaf.VecWide != nil {
					hasWide = true
				}
			}
		})
		if !hasWide {
			// the field's dimension / metric are mapping-level: take them from any leaf
			// that has the field, else use a field name no schema produces
			vw := &spec.VecWideSpec{N: rapid.SampledFrom([]int{1000, 1100}).Draw(t, "cvwN"), Field: "vwide", Dim: 2, Metric: "l2_norm", Opt: "recall", Seed: uint32(rapid.IntRange(0, 99).Draw(t, "cvwSeed"))}
			found := false
			walkPlan(pc.Plan, func(n *spec.MergePlan) {
				if found || !n.IsLeaf() {
					return
				}
				lo := spec.Expect(n.Leaf)
				for _, f := range []string{"vec", "emb", "v2"} {
					if vf := lo.Vec[f]; vf != nil && !found {
						vw.Field, vw.Dim, vw.Metric, vw.Opt = f, vf.Dim, vf.Metric, vf.Opt
						found = true
					}
				}
			})
			first.Leaf.VecWide = vw
		}
	}
	if rapid.Bool().Draw(t, "buildScenario") {
		var leaf *spec.MergePlan
		walkPlan(pc.Plan, func(p *spec.MergePlan) {
			if p.IsLeaf() && (leaf == nil || len(spec.Expect(p.Leaf).Vec) > len(spec.Expect(leaf.Leaf).Vec)) {
				leaf = p
			}
		})
		return engineFaultCase{Plan: &spec.MergePlan{Leaf: leaf.Leaf, ChunkMode: leaf.ChunkMode}}
	}
	return engineFaultCase{Plan: pc.Plan, Reserved: gen.Chance(t, "reserved", 35)}
}

func runEngineFaultCase(c engineFaultCase) *Violation {
	const prop = "C19"
	fakeReset()
	base := fakeLive()

	if c.Plan.IsLeaf() {
		want := spec.Expect(c.Plan.Leaf)
		// fault-free run: count the ops
		seg, _, err := drive.Build(c.Plan.Leaf, c.Plan.ChunkMode)
		if err != nil {
			return violation(prop, "nofault/build-error", "%v", err)
		}
		seg.Close()
		counts := faiss.VerifOpCounts()
		for _, op := range engineOps {
			for n := int64(1); n <= counts[op]; n++ {
				fakeReset()
				faiss.VerifFailNth(op, int(n))
				engineFaultStats.faulted++
				engineFaultStats.buildFaults++
				if !(op == "IndexFactory" && n == 1) {
					engineFaultStats.afterFirstIndex++
				}
				var s segment.Segment
				err := drive.Safe(func() error {
					var e error
					s, _, e = drive.Build(c.Plan.Leaf, c.Plan.ChunkMode)
					return e
				})
				faiss.VerifFailNth(op, 0)
				desc := fmt.Sprintf("build with call %d of engine operation %s failing", n, op)
				if err == nil {
					// a build that reports success must hold every vector
					v := vectorSegmentCheck(prop, s, want, desc)
					s.Close()
					if v != nil {
						v.Signature = "build/fault-swallowed"
						v.Message = desc + ": the build returned no error, yet: " + v.Message
						return v
					}
				}
				if !waitLive(base) {
					return violation(prop, "build/index-leak", "%s: %d native indexes created on the way are still alive", desc, fakeLive()-base)
				}
				if m := faissMisuse(); m != "" {
					return violation(prop, "build/index-released-twice", "%s: %s", desc, m)
				}
			}
		}
		return nil
	}

	// merge scenario: children built fault-free, the root merge is faulted
	root := c.Plan
	var res []*drive.PlanResult
	defer func() {
		for _, r := range res {
			r.Close()
		}
	}()
	segs := make([]segment.Segment, len(root.Children))
	drops := make([]*roaring.Bitmap, len(root.Children))
	for i := range root.Children {
		r, err := drive.RunPlan(&root.Children[i])
		if err != nil {
			return violation(prop, "inputs/error", "%v", err)
		}
		res = append(res, r)
		segs[i] = r.Seg
		drops[i] = drive.Bitmap(root.Drops[i])
	}
	want := spec.ExpectResolved(spec.Resolve(root))
	fakeReset()
	base = fakeLive()
	path := drive.NewPath("c19")
	if _, _, err := drive.Merge(segs, drops, path, root.ChunkMode, nil, nil); err != nil {
		os.Remove(path)
		return violation(prop, "nofault/merge-error", "%v", err)
	}
	os.Remove(path)
	counts := faiss.VerifOpCounts()
	if !waitLive(base) {
		return violation(prop, "merge/index-leak", "fault-free merge: %d native indexes are still alive", fakeLive()-base)
	}
	for _, op := range engineOps {
		for n := int64(1); n <= counts[op]; n++ {
			for _, cancelToo := range []bool{false, true} {
				fakeReset()
				base = fakeLive()
				faiss.VerifFailNth(op, int(n))
				engineFaultStats.faulted++
				engineFaultStats.mergeFaults++
				if !(op == "ReadIndexFromBuffer" && n == 1) {
					engineFaultStats.afterFirstIndex++
				}
				dir := drive.NewDir("c19f")
				p2 := filepath.Join(dir, "merged.zap")
				if c.Reserved {
					if f, err := os.OpenFile(p2, os.O_CREATE|os.O_WRONLY, 0o600); err == nil {
						f.Close()
					}
				}
				// cancelToo: the merge is also cancelled, at the very moment the failing call is entered
				var closeCh chan struct{}
				if cancelToo {
					closeCh = make(chan struct{})
					var seen int64
					var once sync.Once
					theOp, theN := op, n
					fakeOnOp(func(name string) {
						if name == theOp {
							seen++
							if seen == theN {
								once.Do(func() { close(closeCh) })
							}
						}
					})
					engineFaultStats.withCancel++
				}
				err := drive.Safe(func() error {
					_, _, e := drive.Merge(segs, drops, p2, root.ChunkMode, closeCh, nil)
					return e
				})
				fakeOnOp(nil)
				faiss.VerifFailNth(op, 0)
				desc := fmt.Sprintf("merge with call %d of engine operation %s failing", n, op)
				if cancelToo {
					desc += " and the close channel closed when that call is entered"
				}
				_, serr := os.Stat(p2)
				left := drive.ListDir(dir)
				defer os.RemoveAll(dir)
				if err == nil {
					// success claimed: the file must hold every surviving vector
					var v *Violation
					o, oerr := drive.Open(p2)
					if oerr != nil {
						v = violation(prop, "merge/fault-swallowed", "%s: the merge returned no error but its file does not open: %v", desc, oerr)
					} else {
						v = vectorSegmentCheck(prop, o, want, desc)
						if v == nil {
							// a segment reported as complete must also be usable as a merge
							// input again (its vectors must be reconstructable)
							p3 := drive.NewPath("c19r")
							_, _, rerr := drive.Merge([]segment.Segment{o}, []*roaring.Bitmap{nil}, p3, root.ChunkMode, nil, nil)
							if rerr != nil {
								v = violation(prop, "merge/fault-swallowed", "%s: the merge returned no error, yet its output cannot be merged again: %v", desc, rerr)
							} else if o3, oerr := drive.Open(p3); oerr != nil {
								v = violation(prop, "merge/fault-swallowed", "%s: re-merged output does not open: %v", desc, oerr)
							} else {
								v = vectorSegmentCheck(prop, o3, want, desc+" (re-merged)")
								o3.Close()
							}
							os.Remove(p3)
						}
						o.Close()
						if v != nil && v.Signature != "merge/fault-swallowed" {
							v.Signature = "merge/fault-swallowed"
							v.Message = desc + ": the merge returned no error, yet: " + v.Message
						}
					}
					os.Remove(p2)
					if v != nil {
						return v
					}
				} else if serr == nil || len(left) != 0 {
					os.Remove(p2)
					return violation(prop, "merge/file-left-behind", "%s: the merge failed (%v) but left %q in the destination directory", desc, err, left)
				}
				if !waitLive(base) {
					return violation(prop, "merge/index-leak", "%s: %d native indexes created on the way are still alive", desc, fakeLive()-base)
				}
				// "released" means released once: no index is closed twice or used after its release
				if m := faissMisuse(); m != "" {
					return violation(prop, "merge/index-released-twice", "%s: %s", desc, m)
				}
			}
		}
	}
	return nil
}

var c19 = Check[engineFaultCase]{
	Property: "C19", Stage: "engine-faults",
	Gen: genEngineFaultCase, Run: runEngineFaultCase,
	Classify: func(c engineFaultCase) (bool, []string) {
		o := spec.ExpectResolved(spec.Resolve(c.Plan))
		cl := []string{"scenario=merge"}
		if c.Plan.IsLeaf() {
			cl = []string{"scenario=build"}
		}
		n := 0
		for _, vf := range o.Vec {
			n += len(vf.Entries)
			if len(vf.Entries) >= 1000 {
				cl = append(cl, "clustered")
			}
		}
		return n > 0, cl
	},
	Extra: func() map[string]any {
		return map[string]any{"faulted_operations": engineFaultStats.faulted, "faults_after_first_index": engineFaultStats.afterFirstIndex,
			"build_faults": engineFaultStats.buildFaults, "merge_faults": engineFaultStats.mergeFaults, "merge_faults_combined_with_cancellation": engineFaultStats.withCancel}
	},
}

func init() { c19.register() }

func TestC19(t *testing.T) { c19.Rapid(t) }

// TestC19Huge (thorough tier): one deterministic merge scenario beyond the size thresholds
// that batching / buffer-capping code tends to introduce (more than 16384 vectors in one
// field, more than 2^20 floats in one input), with every engine call failed once.
func TestC19Huge(t *testing.T) {
	const prop = "C19"
	col := stats.New(prop, "engine-faults-huge")
	defer col.Write()
	plan := &spec.MergePlan{
		Children: []spec.MergePlan{
			{Leaf: &spec.BatchSpec{VecWide: &spec.VecWideSpec{N: 16600, Field: "vec", Dim: 64, Metric: "l2_norm", Opt: "recall", Seed: 7}}, Mmap: true},
			{Leaf: &spec.BatchSpec{VecWide: &spec.VecWideSpec{N: 40, Field: "vec", Dim: 64, Metric: "l2_norm", Opt: "recall", Seed: 8}}},
		},
		Drops: []spec.DropSpec{{Docs: []uint32{0, 5, 16599}}, {Nil: true}},
	}
	c := engineFaultCase{Plan: plan}
	col.CaseHash(1, true, []string{"scenario=merge", "clustered", "huge(>16384 vectors, >2^20 floats)"}, func() any {
		return "merge of a 16600-vector (dim 64) opened segment with a 40-vector in-memory segment, 3 deletions; every engine call failed once"
	})
	col.CaseHash(2, true, nil, nil)
	before := engineFaultStats.faulted
	v := safeRun(c19, c)
	col.SetExtra("faulted_operations", engineFaultStats.faulted-before)
	if v != nil {
		col.Freeze()
		path := writeReplay(prop, "engine-faults", c, v)
		fmt.Printf("VIOLATION-DETAIL property=%s stage=engine-faults-huge signature=%s replay=%s\n%s\n", prop, v.Signature, path, v.Message)
		t.FailNow()
	}
}
