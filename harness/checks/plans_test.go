package checks

import (
	"fmt"
	"os"
	"reflect"
	"sort"
	"testing"

	zap "github.com/blevesearch/zapx/v16"
	"pgregory.net/rapid"

	"verifharness/drive"
	"verifharness/gen"
	"verifharness/spec"
)

// Merge-plan checks: C05 (numbering + stored), C06 (index + doc values), C13 (thesauri).

type planCase struct {
	Plan *spec.MergePlan `json:"plan"`
	// DVChunk is the doc-value chunk size (zap.LegacyChunkMode) for the whole case, writer and
	// reader alike; 0 = the default 1024. Small values give doc-value fields many chunks, some
	// of them empty, with a handful of documents.
	DVChunk uint32 `json:"dvChunk,omitempty"`
}

type planGenOpts struct {
	synonyms   int
	vectors    int
	chunkModes bool
	forceDV    bool
	wide       bool
	widePct    int
	// bigValuesPct: percentage of cases whose schema allows stored values > 64 KiB (0 = generator default)
	bigValuesPct int
}

func genPlanCase(t *rapid.T, o planGenOpts) planCase {
	so := gen.DefaultSchemaOpts()
	so.Synonyms = o.synonyms
	so.Vectors = o.vectors
	so.ForceDV = o.forceDV
	so.ForceStored = true
	s := gen.GenSchema(t, so)
	if o.bigValuesPct > 0 && gen.Chance(t, "bigValuesForced", o.bigValuesPct) {
		s.BigValues = true
		for i := range s.Fields {
			s.Fields[i].Stored = true
		}
	}
	wp := o.widePct
	if wp == 0 {
		wp = 2
	}
	po := gen.PlanOpts{MaxDepth: 3, MaxChildren: 4, ChunkModes: o.chunkModes,
		Batch: gen.BatchOpts{MaxDocs: 8, AllowEmpty: true, AllowWide: o.wide, WidePct: wp}}
	p := s.GenPlan(t, "p", po)
	if gen.Chance(t, "uniform", 50) {
		s.Uniform(p)
	}
	if gen.Chance(t, "sameIDInTwoLeaves", 25) {
		// the same external id in two inputs (an updated document whose older copy is, or is not,
		// deleted by the merge): its _id term then has two documents while its neighbours have one
		var leaves []*spec.MergePlan
		walkPlan(p, func(n *spec.MergePlan) {
			if n.IsLeaf() && len(n.Leaf.Docs) > 0 {
				leaves = append(leaves, n)
			}
		})
		if len(leaves) >= 2 {
			a := rapid.IntRange(0, len(leaves)-2).Draw(t, "dupLeafA")
			b := rapid.IntRange(a+1, len(leaves)-1).Draw(t, "dupLeafB")
			da := rapid.IntRange(0, len(leaves[a].Leaf.Docs)-1).Draw(t, "dupDocA")
			db := rapid.IntRange(0, len(leaves[b].Leaf.Docs)-1).Draw(t, "dupDocB")
			leaves[b].Leaf.Docs[db].ID = leaves[a].Leaf.Docs[da].ID
		}
	}
	return planCase{Plan: p}
}

type planCheckOpts struct {
	prop          string
	stored, index bool
	dv, thes      bool
}

func walkPlan(p *spec.MergePlan, f func(*spec.MergePlan)) {
	for i := range p.Children {
		walkPlan(&p.Children[i], f)
	}
	f(p)
}

func runPlanCase(c planCase, o planCheckOpts) *Violation {
	prop := o.prop
	if c.DVChunk != 0 {
		old := zap.LegacyChunkMode
		zap.LegacyChunkMode = c.DVChunk
		defer func() { zap.LegacyChunkMode = old }()
	}
	var res *drive.PlanResult
	err := drive.Safe(func() error {
		var e error
		res, e = drive.RunPlan(c.Plan)
		return e
	})
	if err != nil {
		// attribute: was it a zero-survivor situation somewhere in the plan?
		sig := "merge/error"
		zs := false
		walkPlan(c.Plan, func(p *spec.MergePlan) {
			if !p.IsLeaf() && spec.Resolve(p).ZeroSurvivors {
				zs = true
			}
		})
		if zs {
			sig = "merge/zero-survivors/error"
		}
		return violation(prop, sig, "executing the plan failed: %v", err)
	}
	defer res.Close()
	for ni, node := range res.Nodes {
		r := spec.Resolve(node.Plan)
		tag := fmt.Sprintf("node %d/%d (depth %d, %d children)", ni+1, len(res.Nodes), node.Plan.Depth(), len(node.Plan.Children))
		zs := ""
		if r.ZeroSurvivors {
			zs = "zero-survivors/"
		}
		if o.stored {
			// doc-number maps
			if len(node.NewNums) != len(r.NewNums) {
				return violation(prop, "merge/"+zs+"newnums-len", "%s: Merge returned %d doc-number maps for %d inputs", tag, len(node.NewNums), len(r.NewNums))
			}
			for i := range r.NewNums {
				if len(r.NewNums[i]) == 0 && len(node.NewNums[i]) == 0 {
					continue
				}
				if !reflect.DeepEqual(r.NewNums[i], node.NewNums[i]) {
					return violation(prop, "merge/"+zs+"newnums", "%s: doc-number map of input %d is %v, model %v", tag, i, fmtNums(node.NewNums[i]), fmtNums(r.NewNums[i]))
				}
			}
			fi, err := os.Stat(node.Path)
			if err != nil {
				return violation(prop, "merge/no-file", "%s: %v", tag, err)
			}
			if uint64(fi.Size()) != node.Size {
				return violation(prop, "merge/size", "%s: Merge reported %d bytes, file has %d", tag, node.Size, fi.Size())
			}
		}
		want := spec.ExpectResolved(r)
		got, err := drive.Observe(node.Seg)
		if err != nil {
			return violation(prop, "merge/"+zs+"observe-error", "%s: %v", tag, err)
		}
		opts := spec.DiffOpts{SkipStored: !o.stored, SkipIndex: !o.index, SkipDV: !o.dv, SkipThes: !o.thes, DVFieldsSub: true}
		if o.stored {
			if r.ZeroSurvivors {
				opts.FieldsAnyOf = [][]string{nil, r.UnionFields, r.FieldsAlt}
			} else {
				opts.FieldsAnyOf = [][]string{r.Fields, r.FieldsAlt}
			}
		} else {
			opts.SkipFields = true
		}
		if d := spec.Diff(want, got, opts); d != "" {
			return violation(prop, "merge/"+zs+"mismatch", "%s: %s", tag, d)
		}
		if o.stored {
			// DocNumbers over all ids of the plan's leaves + absent ones
			ids := map[string]bool{"": true, "zzzz": true}
			walkPlan(node.Plan, func(p *spec.MergePlan) {
				if p.IsLeaf() {
					for _, d := range p.Leaf.AllDocs() {
						ids[string(d.ID)] = true
					}
				}
			})
			var list []spec.B
			for id := range ids {
				list = append(list, spec.B(id))
			}
			sort.Slice(list, func(i, j int) bool { return list[i] < list[j] })
			rev := make([]spec.B, len(list))
			for i := range list {
				rev[len(list)-1-i] = list[i]
			}
			// document order of the survivors (so ids of multi-document terms precede and follow
			// ids of single-document terms in both directions)
			var byDoc []spec.B
			for n := range want.Stored {
				byDoc = append(byDoc, spec.B(want.Stored[n][0].Val))
			}
			// only ids that are present, each once, ascending and descending
			var present []spec.B
			seenID := map[string]bool{}
			for _, id := range byDoc {
				if !seenID[string(id)] {
					seenID[string(id)] = true
					present = append(present, id)
				}
			}
			sort.Slice(present, func(i, j int) bool { return present[i] < present[j] })
			presentRev := make([]spec.B, len(present))
			for i := range present {
				presentRev[len(present)-1-i] = present[i]
			}
			if v := checkStoredSurface(prop, node.Seg, want, [][]spec.B{list, rev, byDoc, present, presentRev}); v != nil {
				v.Signature = "merge/" + zs + v.Signature
				v.Message = tag + ": " + v.Message
				return v
			}
		}
		if o.thes {
			// the lookup surface (exclusions, unknown terms, recycled lists and iterators) on the
			// merged segment; terms without a surviving pair must stay gone whatever was looked up before
			var ex spec.DropSpec
			for d := uint64(0); d < want.Count; d += 2 {
				ex.Docs = append(ex.Docs, uint32(d))
			}
			if v := checkThesauri(prop, node.Seg, want, []spec.DropSpec{ex}, true, tag+": "); v != nil {
				v.Signature = "merge/" + v.Signature
				return v
			}
		}
		if o.index {
			// terms whose every document was deleted must be gone
			if v := checkAbsent(prop, node.Seg, want); v != nil {
				v.Message = tag + ": " + v.Message
				return v
			}
			walked := map[string]map[string]bool{}
			walkPlan(node.Plan, func(p *spec.MergePlan) {
				if p.IsLeaf() {
					lo := spec.Expect(p.Leaf)
					for f, terms := range lo.Index {
						if walked[f] == nil {
							walked[f] = map[string]bool{}
						}
						for t := range terms {
							walked[f][t] = true
						}
					}
				}
			})
			var v *Violation
			err := drive.Safe(func() error {
				for f, terms := range walked {
					d, err := node.Seg.Dictionary(f)
					if err != nil {
						return err
					}
					for t := range terms {
						if _, alive := want.Index[f][t]; alive {
							continue
						}
						ok, err := d.Contains([]byte(t))
						if err != nil {
							return err
						}
						pl, err := d.PostingsList([]byte(t), nil, nil)
						if err != nil {
							return err
						}
						if ok || pl.Count() != 0 {
							v = violation(prop, "merge/dead-term-survives", "%s: term %q of field %q has no surviving document but Contains=%v Count=%d", tag, t, f, ok, pl.Count())
							return nil
						}
					}
				}
				return nil
			})
			if err != nil {
				return violation(prop, "merge/"+zs+"dead-term-error", "%s: %v", tag, err)
			}
			if v != nil {
				return v
			}
		}
	}
	return nil
}

func fmtNums(n []uint64) string {
	s := "["
	for i, x := range n {
		if i > 0 {
			s += " "
		}
		if i >= 40 {
			s += "…"
			break
		}
		if x == spec.DocDropped {
			s += "X"
		} else {
			s += fmt.Sprint(x)
		}
	}
	return s + "]"
}

func classifyPlan(p *spec.MergePlan) (classes []string, inputs int, deletions int) {
	walkPlan(p, func(n *spec.MergePlan) {
		if n.IsLeaf() {
			if n.Leaf.NumDocs() == 0 {
				classes = append(classes, "empty-leaf")
			}
			if n.Mmap {
				classes = append(classes, "leaf-mmap")
			} else {
				classes = append(classes, "leaf-mem")
			}
			return
		}
		if len(n.Children) > inputs {
			inputs = len(n.Children)
		}
		r := spec.Resolve(n)
		if r.ZeroSurvivors {
			classes = append(classes, "zero-survivors")
		}
		sameFields := true
		var first []string
		noDrops := true
		for i := range n.Children {
			cr := spec.Resolve(&n.Children[i])
			if i == 0 {
				first = cr.Fields
			} else if !reflect.DeepEqual(first, cr.Fields) {
				sameFields = false
			}
			if !n.Children[i].IsLeaf() {
				classes = append(classes, "re-merge")
			}
			d := n.Drops[i]
			if !d.Nil && len(d.Docs) > 0 {
				noDrops = false
				deletions += len(d.Docs)
				if len(d.Docs) == len(cr.Docs) {
					classes = append(classes, "input-fully-dropped")
				}
			}
			if d.Nil {
				classes = append(classes, "nil-bitmap")
			} else if len(d.Docs) == 0 {
				classes = append(classes, "empty-bitmap")
			}
		}
		if sameFields {
			classes = append(classes, "same-fields(copy-path)")
			if noDrops {
				classes = append(classes, "stored-byte-copy")
			}
		} else {
			classes = append(classes, "different-fields")
		}
	})
	return dedup(classes), inputs, deletions
}

// ---- C05 -------------------------------------------------------------------

var c05 = Check[planCase]{
	Property: "C05", Stage: "merge-stored",
	Gen: func(t *rapid.T) planCase {
		return genPlanCase(t, planGenOpts{synonyms: 1, chunkModes: false})
	},
	Run: func(c planCase) *Violation {
		return runPlanCase(c, planCheckOpts{prop: "C05", stored: true})
	},
	Classify: func(c planCase) (bool, []string) {
		cl, inputs, del := classifyPlan(c.Plan)
		return inputs >= 2 || del >= 1, cl
	},
}

func TestC05(t *testing.T) { c05.Rapid(t) }

// ---- C06 -------------------------------------------------------------------

func sharedTermAcrossInputs(p *spec.MergePlan) bool {
	shared := false
	walkPlan(p, func(n *spec.MergePlan) {
		if n.IsLeaf() || len(n.Children) < 2 {
			return
		}
		seen := map[string]int{}
		for i := range n.Children {
			o := spec.ExpectResolved(spec.Resolve(&n.Children[i]))
			for f, terms := range o.Index {
				if f == "_id" {
					continue
				}
				for t := range terms {
					seen[f+"\x00"+t]++
				}
			}
		}
		for _, k := range seen {
			if k >= 2 {
				shared = true
			}
		}
	})
	return shared
}

var c06 = Check[planCase]{
	Property: "C06", Stage: "merge-index",
	Gen: func(t *rapid.T) planCase {
		c := genPlanCase(t, planGenOpts{chunkModes: true, forceDV: true, wide: true})
		if gen.Chance(t, "smallDVChunk", 40) {
			c.DVChunk = rapid.SampledFrom([]uint32{2, 3, 1, 4, 5}).Draw(t, "dvChunk")
			// a doc-value field that fills one chunk of a leaf and is absent from the whole next one
			n := int(c.DVChunk)
			li := 0
			walkPlan(c.Plan, func(p *spec.MergePlan) {
				if !p.IsLeaf() || p.Leaf.Wide != nil || len(p.Leaf.Docs) < 2*n {
					return
				}
				li++
				if !gen.Chance(t, fmt.Sprintf("gap%d", li), 70) {
					return
				}
				for i := range p.Leaf.Docs {
					if i >= n && i < 2*n {
						continue
					}
					if i >= 2*n && !rapid.Bool().Draw(t, fmt.Sprintf("gap%dd%d", li, i)) {
						continue
					}
					term := rapid.SampledFrom([]string{"g", "h", ""}).Draw(t, fmt.Sprintf("gap%dt%d", li, i))
					p.Leaf.Docs[i].Fields = append(p.Leaf.Docs[i].Fields, spec.FieldSpec{Name: "gapf", Type: 't', DV: true, Len: 1,
						Tokens: []spec.TokenSpec{{Term: spec.B(term), Freq: 1}}})
				}
			})
		}
		return c
	},
	Run: func(c planCase) *Violation {
		return runPlanCase(c, planCheckOpts{prop: "C06", index: true, dv: true})
	},
	Classify: func(c planCase) (bool, []string) {
		cl, _, del := classifyPlan(c.Plan)
		sh := sharedTermAcrossInputs(c.Plan)
		if sh {
			cl = append(cl, "term-in-several-inputs")
		}
		if c.DVChunk != 0 {
			cl = append(cl, "doc-value-chunks-of-1..5-docs")
		}
		return del >= 1 && sh, cl
	},
}

func TestC06(t *testing.T) { c06.Rapid(t) }

// ---- C13 -------------------------------------------------------------------

var c13 = Check[planCase]{
	Property: "C13", Stage: "merge-thesaurus",
	Gen: func(t *rapid.T) planCase {
		c := genPlanCase(t, planGenOpts{synonyms: 2, chunkModes: false})
		if gen.Chance(t, "synWide", 8) {
			// one term of one input with 1024..2050 (synonym, document) pairs
			var first *spec.MergePlan
			thes := ""
			walkPlan(c.Plan, func(n *spec.MergePlan) {
				if n.IsLeaf() {
					if first == nil {
						first = n
					}
					for th := range spec.Expect(n.Leaf).Thes {
						thes = th
					}
				}
			})
			if thes == "" {
				thes = "syn"
			}
			shape := rapid.SampledFrom([][2]int{{41, 25}, {32, 32}, {27, 38}, {82, 25}, {1025, 1}}).Draw(t, "synWideShape")
			first.Leaf.SynWide = &spec.SynWideSpec{N: shape[0], Syns: shape[1], Thes: thes, Term: rapid.SampledFrom([]string{"hub", "happy", "zzz"}).Draw(t, "synWideTerm")}
		}
		return c
	},
	Run: func(c planCase) *Violation {
		return runPlanCase(c, planCheckOpts{prop: "C13", thes: true})
	},
	Classify: func(c planCase) (bool, []string) {
		cl, _, del := classifyPlan(c.Plan)
		// same synonym string in >= 2 inputs of one merge
		shared := false
		walkPlan(c.Plan, func(n *spec.MergePlan) {
			if n.IsLeaf() || len(n.Children) < 2 {
				return
			}
			seen := map[string]int{}
			for i := range n.Children {
				o := spec.ExpectResolved(spec.Resolve(&n.Children[i]))
				local := map[string]bool{}
				for th, terms := range o.Thes {
					for _, pairs := range terms {
						for _, p := range pairs {
							local[th+"\x00"+p.Syn] = true
						}
					}
				}
				for k := range local {
					seen[k]++
				}
			}
			for _, k := range seen {
				if k >= 2 {
					shared = true
				}
			}
		})
		if shared {
			cl = append(cl, "synonym-in-several-inputs")
		}
		return shared && del >= 1, cl
	},
}

func TestC13(t *testing.T) { c13.Rapid(t) }

func init() {
	c05.register()
	c06.register()
	c13.register()
}
