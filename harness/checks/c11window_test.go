package checks

import (
	"encoding/json"
	"fmt"
	"os"
	"runtime"
	"sync"
	"sync/atomic"
	"testing"

	"github.com/RoaringBitmap/roaring/v2"
	segment "github.com/blevesearch/scorch_segment_api/v2"
	zap "github.com/blevesearch/zapx/v16"

	"verifharness/drive"
	"verifharness/spec"
	"verifharness/stats"
)

// C11, single-processor stage: the working memory of stored-field visits and of merges is
// pooled per processor, so two goroutines sharing ONE processor hand the same objects back and
// forth. A merge that re-encodes the stored fields of a shared input runs while another
// goroutine visits stored fields of a second segment as fast as it can; the merge goroutine is
// preempted at arbitrary points. Every merge output is re-opened and compared with the model.

type windowCase struct {
	Docs, Values, ValueLen int
	Merges                 int
}

func windowBatch(c windowCase, tag byte) *spec.BatchSpec {
	b := &spec.BatchSpec{}
	x := uint32(tag)
	for d := 0; d < c.Docs; d++ {
		doc := spec.DocSpec{ID: spec.B(fmt.Sprintf("%c%03d", tag, d))}
		for k := 0; k < c.Values; k++ {
			v := make([]byte, c.ValueLen)
			for i := range v {
				x = x*1664525 + 1013904223
				v[i] = byte(x >> 24)
			}
			v[0] = tag
			doc.Fields = append(doc.Fields, spec.FieldSpec{Name: fmt.Sprintf("s%02d", k), Type: 't', Stored: true, Value: v})
		}
		b.Docs = append(b.Docs, doc)
	}
	return b
}

func runWindowCase(c windowCase) (v *Violation, merges int64, visits int64) {
	const prop = "C11"
	prev := runtime.GOMAXPROCS(1)
	defer runtime.GOMAXPROCS(prev)
	zap.VerifResetPools()
	// the whole merge output stays in the writer's buffer until the final flush: no system call,
	// so no voluntary hand-over of the processor, inside the merge body
	oldBuf := zap.DefaultFileMergerBufferSize
	zap.DefaultFileMergerBufferSize = 64 << 20
	defer func() { zap.DefaultFileMergerBufferSize = oldBuf }()
	bs, br := windowBatch(c, 'S'), windowBatch(c, 'R')
	wantR := spec.Expect(br)
	segS, closeS, v := openVariant(prop, bs, 0, true)
	if v != nil {
		return v, 0, 0
	}
	defer closeS()
	segR, closeR, v := openVariant(prop, br, 0, false)
	if v != nil {
		return v, 0, 0
	}
	defer closeR()
	plan := &spec.MergePlan{Children: []spec.MergePlan{{Leaf: bs}}, Drops: []spec.DropSpec{{Docs: []uint32{0}}}}
	want := spec.ExpectResolved(spec.Resolve(plan))

	var stop atomic.Bool
	var nVisits atomic.Int64
	var readerV *Violation
	var wg sync.WaitGroup
	wg.Add(1)
	go func() {
		defer wg.Done()
		err := drive.Safe(func() error {
			for d := 0; !stop.Load(); d = (d + 1) % c.Docs {
				got, err := drive.VisitStored(segR, uint64(d))
				if err != nil {
					return err
				}
				for k := range got {
					if len(got[k].AP) == 0 {
						got[k].AP = nil
					}
				}
				if !storedEqual(wantR.Stored[d], got) {
					readerV = violation(prop, "window/reader-mismatch", "stored fields of document %d of the second segment differ from the model while a merge runs on the same processor", d)
					return nil
				}
				nVisits.Add(1)
				runtime.Gosched()
			}
			return nil
		})
		if err != nil && readerV == nil {
			readerV = violation(prop, "window/error", "reader: %v", err)
		}
	}()
	defer func() {
		stop.Store(true)
		wg.Wait()
		visits = nVisits.Load()
		if v == nil && readerV != nil {
			v = readerV
		}
	}()
	for i := 0; i < c.Merges; i++ {
		path := drive.NewPath("c11w")
		err := drive.Safe(func() error {
			_, _, e := drive.Merge([]segment.Segment{segS}, []*roaring.Bitmap{roaring.BitmapOf(0)}, path, 0, nil, nil)
			return e
		})
		if err != nil {
			os.Remove(path)
			return violation(prop, "window/merge-error", "merge %d: %v", i, err), merges, 0
		}
		merges++
		vv := reopenAndCompare(prop, path, want, spec.DiffOpts{SkipIndex: true, SkipDV: true, SkipThes: true, SkipFields: true})
		os.Remove(path)
		if vv != nil {
			vv.Signature = "window/merge-output-" + vv.Signature
			vv.Message = fmt.Sprintf("merge %d of a shared input, run while another goroutine on the same processor visits stored fields: %s", i, vv.Message)
			return vv, merges, 0
		}
		if readerV != nil {
			return readerV, merges, 0
		}
	}
	return nil, merges, 0
}

func init() {
	registry["C11/single-processor"] = func(raw json.RawMessage) *Violation {
		var c windowCase
		if err := json.Unmarshal(raw, &c); err != nil {
			return violation("C11", "replay/bad-case-file", "%v", err)
		}
		v, _, _ := runWindowCase(c)
		return v
	}
}

func TestC11Window(t *testing.T) {
	col := stats.New("C11", "single-processor")
	defer col.Write()
	n := 150
	if os.Getenv("VERIF_TIER") == "thorough" {
		n = 800
	}
	var merges, visits int64
	for _, c := range []windowCase{{Docs: 600, Values: 16, ValueLen: 1024, Merges: n}} {
		col.CaseHash(stats.HashJSON(c), true, []string{"merge-and-visitor-share-one-processor"}, func() any { return sampleOf(c) })
		v, m, vs := runWindowCase(c)
		merges += m
		visits += vs
		reportBig(t, col, "C11", "single-processor", c, v)
	}
	col.SetExtra("single_processor_merges", merges)
	col.SetExtra("single_processor_visits_interleaved", visits)
}
