package checks

import (
	"bytes"
	"encoding/binary"
	"fmt"
	"hash/crc32"
	"os"
	"runtime/debug"
	"testing"

	segment "github.com/blevesearch/scorch_segment_api/v2"
	zap "github.com/blevesearch/zapx/v16"
	"pgregory.net/rapid"

	"verifharness/drive"
	"verifharness/gen"
	"verifharness/spec"
)

// C04 — a persisted and re-opened segment is indistinguishable from the in-memory one.

type persistCase struct {
	Batch     *spec.BatchSpec `json:"batch"`
	ChunkMode uint32          `json:"chunkMode"`
	DVChunk   uint32          `json:"dvChunk"`
}

func genPersistCase(t *rapid.T) persistCase {
	o := gen.DefaultSchemaOpts()
	o.Synonyms = 1
	o.Vectors = vectorsMaybe
	s := gen.GenSchema(t, o)
	b := s.GenBatch(t, "b", gen.BatchOpts{MaxDocs: 30, AllowWide: true, WidePct: 4, AllowEmpty: true, DupIDPct: 5})
	c := persistCase{Batch: b, ChunkMode: gen.ChunkMode(t, "cm"), DVChunk: 1024}
	if gen.Chance(t, "dvSmall", 25) {
		c.DVChunk = rapid.SampledFrom(dvChunkPalette).Draw(t, "dvChunk")
	}
	return c
}

// effMode is the chunk mode the file must record.
func effMode(m uint32) uint32 {
	if m == 0 {
		return 1026
	}
	return m
}

// checkFooter validates the documented footer against the expected values.
func checkFooter(prop string, data []byte, numDocs uint64, chunkMode uint32) *Violation {
	if len(data) < zap.FooterSize {
		return violation(prop, "footer/short-file", "file has %d bytes, shorter than the footer", len(data))
	}
	crc := binary.BigEndian.Uint32(data[len(data)-4:])
	if want := crc32.ChecksumIEEE(data[:len(data)-4]); crc != want {
		return violation(prop, "footer/crc", "stored CRC %08x, CRC-32 of preceding bytes %08x", crc, want)
	}
	if ver := binary.BigEndian.Uint32(data[len(data)-8:]); ver != 16 {
		return violation(prop, "footer/version", "version field %d, want 16", ver)
	}
	if cm := binary.BigEndian.Uint32(data[len(data)-12:]); cm != chunkMode {
		return violation(prop, "footer/chunkmode", "chunk mode field %d, want %d", cm, chunkMode)
	}
	nd := binary.BigEndian.Uint64(data[len(data)-zap.FooterSize:])
	if nd != numDocs {
		return violation(prop, "footer/numdocs", "document count field %d, want %d", nd, numDocs)
	}
	return nil
}

// afterClose re-reads an observation taken from a segment that has been closed since: everything in
// it (field names, terms, values) was handed out as values of the caller's and must still be readable.
func afterClose(prop string, memObs, mmObs *spec.Obs) (v *Violation) {
	defer debug.SetPanicOnFault(debug.SetPanicOnFault(true))
	defer func() {
		if r := recover(); r != nil {
			v = violation(prop, "mmap/value-dangles-after-close", "reading what the opened segment had handed out, after its Close, faulted: %v", r)
		}
	}()
	if d := spec.Diff(memObs, mmObs, spec.DiffOpts{}); d != "" {
		return violation(prop, "mmap/value-changed-after-close", "what the opened segment had handed out changed after its Close: %s", d)
	}
	return nil
}

func runPersistCase(c persistCase) *Violation {
	const prop = "C04"
	old := zap.LegacyChunkMode
	zap.LegacyChunkMode = c.DVChunk
	defer func() { zap.LegacyChunkMode = old }()

	want := spec.Expect(c.Batch)
	var seg segment.Segment
	var size uint64
	err := drive.Safe(func() error {
		var e error
		seg, size, e = drive.Build(c.Batch, c.ChunkMode)
		return e
	})
	if err != nil {
		return violation(prop, "build/error", "build failed: %v", err)
	}
	defer seg.Close()
	memObs, err := drive.Observe(seg)
	if err != nil {
		return violation(prop, "observe-mem/error", "%v", err)
	}
	if d := spec.Diff(want, memObs, spec.DiffOpts{}); d != "" {
		return violation(prop, "mem-vs-model", "in-memory segment: %s", d)
	}
	sb := seg.(*zap.SegmentBase)
	var buf bytes.Buffer
	var n int64
	var path string
	err = drive.Safe(func() error {
		var e error
		n, e = sb.WriteTo(&buf)
		if e != nil {
			return fmt.Errorf("WriteTo: %w", e)
		}
		// every other batch is persisted onto a name reserved beforehand (an empty file)
		path, e = drive.PersistReserved(seg, "c04", len(c.Batch.Docs)%2 == 1)
		if e != nil {
			return fmt.Errorf("Persist: %w", e)
		}
		return nil
	})
	defer removeFile(path)
	if err != nil {
		return violation(prop, "persist/error", "%v", err)
	}
	data, rerr := os.ReadFile(path)
	if rerr != nil {
		return violation(prop, "persist/no-file", "%v", rerr)
	}
	if !bytes.Equal(data, buf.Bytes()) {
		return violation(prop, "persist-vs-writeto", "Persist wrote %d bytes, WriteTo %d bytes; contents differ", len(data), buf.Len())
	}
	if n != int64(len(data)) {
		return violation(prop, "writeto/count", "WriteTo returned %d, file has %d bytes", n, len(data))
	}
	if size != uint64(len(data)-zap.FooterSize) {
		return violation(prop, "new/size", "New reported %d bytes, file body has %d", size, len(data)-zap.FooterSize)
	}
	if v := checkFooter(prop, data, want.Count, effMode(c.ChunkMode)); v != nil {
		return v
	}
	var opened segment.Segment
	err = drive.Safe(func() error {
		var e error
		opened, e = drive.Open(path)
		return e
	})
	if err != nil {
		return violation(prop, "open/error", "%v", err)
	}
	openedClosed := false
	defer func() {
		if !openedClosed {
			opened.Close()
		}
	}()
	mm := opened.(*zap.Segment)
	if mm.CRC() != binary.BigEndian.Uint32(data[len(data)-4:]) || mm.Version() != 16 || mm.ChunkMode() != effMode(c.ChunkMode) || mm.NumDocs() != want.Count {
		return violation(prop, "open/footer-accessors", "CRC()=%08x Version()=%d ChunkMode()=%d NumDocs()=%d disagree with the file (mode %d, docs %d)", mm.CRC(), mm.Version(), mm.ChunkMode(), mm.NumDocs(), effMode(c.ChunkMode), want.Count)
	}
	mmObs, err := drive.Observe(opened)
	if err != nil {
		return violation(prop, "observe-mmap/error", "%v", err)
	}
	if d := spec.Diff(memObs, mmObs, spec.DiffOpts{}); d != "" {
		return violation(prop, "mem-vs-mmap", "opened segment differs from the in-memory one: %s", d)
	}
	if v := vectorEquivalence(prop, c.Batch, want, seg, opened); v != nil {
		return v
	}
	// field names, terms and values taken from the opened segment are the caller's: they must
	// outlive the segment (its file is unmapped by this Close)
	if err := opened.Close(); err != nil {
		return violation(prop, "open/close-error", "%v", err)
	}
	openedClosed = true
	return afterClose(prop, memObs, mmObs)
}

var c04 = Check[persistCase]{
	Property: "C04", Stage: "persist",
	Gen: genPersistCase, Run: runPersistCase,
	Classify: func(c persistCase) (bool, []string) {
		o := spec.Expect(c.Batch)
		var cl []string
		if len(o.DV) > 0 {
			cl = append(cl, "dv")
		}
		if len(o.Thes) > 0 {
			cl = append(cl, "thesaurus")
		}
		if len(o.Vec) > 0 {
			cl = append(cl, "vector-fields")
		}
		if o.Count == 0 {
			cl = append(cl, "empty-batch")
		}
		if c.Batch.Wide != nil {
			cl = append(cl, "wide")
		}
		cl = append(cl, "mode="+modeClass(c.ChunkMode))
		return o.Count > 0 && (len(o.DV) > 0 || len(o.Thes) > 0), cl
	},
}

func init() { c04.register() }

func TestC04(t *testing.T) { c04.Rapid(t) }
