package checks

import (
	"bytes"
	"encoding/json"
	"fmt"
	"sort"
	"testing"

	"github.com/RoaringBitmap/roaring/v2"
	segment "github.com/blevesearch/scorch_segment_api/v2"
	"github.com/blevesearch/vellum"
	"github.com/blevesearch/vellum/levenshtein"
	vregexp "github.com/blevesearch/vellum/regexp"
	"pgregory.net/rapid"

	"verifharness/drive"
	"verifharness/gen"
	"verifharness/spec"
	"verifharness/stats"
)

// C08 — dictionary enumeration returns exactly the accepted terms with true counts.

type dictQuery struct {
	Field    string `json:"field"`
	Auto     string `json:"auto"` // nil all never exact prefix regexp lev contains lenmod3
	Arg      spec.B `json:"arg,omitempty"`
	Dist     int    `json:"dist,omitempty"`
	HasStart bool   `json:"hasStart,omitempty"`
	Start    spec.B `json:"start,omitempty"`
	HasEnd   bool   `json:"hasEnd,omitempty"`
	End      spec.B `json:"end,omitempty"`
}

type dictCase struct {
	Batch      *spec.BatchSpec `json:"batch"`
	Provenance int             `json:"provenance"`      // 0 built, 1 opened, 2 merged once, 3 merged twice, 4 merged after a segment without these fields, with deletions
	Drops      []spec.DropSpec `json:"drops,omitempty"` // provenance 4: deletions of the neighbour (3 docs) and of the batch
	ChunkMode  uint32          `json:"chunkMode"`
	Queries    []dictQuery     `json:"queries"`
}

var dictAlphabet = []string{"\x00", "a", "b", "c", "\x7f", "é"}

func genDictTerm(t *rapid.T, label string) string {
	n := rapid.IntRange(0, 4).Draw(t, label+"len")
	s := ""
	for i := 0; i < n; i++ {
		s += rapid.SampledFrom(dictAlphabet).Draw(t, fmt.Sprintf("%s_%d", label, i))
	}
	return s
}

// harness-written automata --------------------------------------------------

type containsByte struct{ b byte }

func (c containsByte) Start() int                 { return 0 }
func (c containsByte) IsMatch(s int) bool         { return s == 1 }
func (c containsByte) CanMatch(int) bool          { return true }
func (c containsByte) WillAlwaysMatch(s int) bool { return s == 1 }
func (c containsByte) Accept(s int, b byte) int {
	if s == 1 || b == c.b {
		return 1
	}
	return 0
}

type lenMod3 struct{}

func (lenMod3) Start() int               { return 0 }
func (lenMod3) IsMatch(s int) bool       { return s == 0 }
func (lenMod3) CanMatch(int) bool        { return true }
func (lenMod3) WillAlwaysMatch(int) bool { return false }
func (lenMod3) Accept(s int, b byte) int { return (s + 1) % 3 }

type neverMatch struct{}

func (neverMatch) Start() int               { return 0 }
func (neverMatch) IsMatch(int) bool         { return false }
func (neverMatch) CanMatch(int) bool        { return false }
func (neverMatch) WillAlwaysMatch(int) bool { return false }
func (neverMatch) Accept(int, byte) int     { return 0 }

type exactMatch struct{ s []byte }

func (e exactMatch) Start() int               { return 0 }
func (e exactMatch) IsMatch(s int) bool       { return s == len(e.s) }
func (e exactMatch) CanMatch(s int) bool      { return s >= 0 }
func (e exactMatch) WillAlwaysMatch(int) bool { return false }
func (e exactMatch) Accept(s int, b byte) int {
	if s >= 0 && s < len(e.s) && e.s[s] == b {
		return s + 1
	}
	return -1
}

type prefixMatch struct{ s []byte }

func (e prefixMatch) Start() int                 { return 0 }
func (e prefixMatch) IsMatch(s int) bool         { return s == len(e.s) }
func (e prefixMatch) CanMatch(s int) bool        { return s >= 0 }
func (e prefixMatch) WillAlwaysMatch(s int) bool { return s == len(e.s) }
func (e prefixMatch) Accept(s int, b byte) int {
	if s == len(e.s) {
		return s
	}
	if s >= 0 && e.s[s] == b {
		return s + 1
	}
	return -1
}

func buildAutomaton(q dictQuery) (segment.Automaton, error) {
	switch q.Auto {
	case "nil":
		return nil, nil
	case "all":
		return &vellum.AlwaysMatch{}, nil
	case "never":
		return neverMatch{}, nil
	case "exact":
		return exactMatch{[]byte(q.Arg)}, nil
	case "prefix":
		return prefixMatch{[]byte(q.Arg)}, nil
	case "regexp":
		return vregexp.New(string(q.Arg))
	case "lev":
		lb, err := levenshtein.NewLevenshteinAutomatonBuilder(uint8(q.Dist), false)
		if err != nil {
			return nil, err
		}
		return lb.BuildDfa(string(q.Arg), uint8(q.Dist))
	case "contains":
		b := byte('a')
		if len(q.Arg) > 0 {
			b = q.Arg[0]
		}
		return containsByte{b}, nil
	case "lenmod3":
		return lenMod3{}, nil
	}
	return nil, fmt.Errorf("unknown automaton kind %q", q.Auto)
}

func accepts(a segment.Automaton, term []byte) bool {
	if a == nil {
		return true
	}
	s := a.Start()
	for _, b := range term {
		s = a.Accept(s, b)
	}
	return a.IsMatch(s)
}

var regexpPieces = []string{"a", "b", "c", ".", "a*", "b+", "[ab]", "(a|b)", ".*", "é", "[^a]", "c?"}

func genDictCase(t *rapid.T) dictCase {
	c := dictCase{}
	nDocs := rapid.IntRange(1, 6).Draw(t, "nDocs")
	fields := []string{"f", "g", "z"} // z is indexed without freq/norm (frequency 0) and without locations
	docs := make([]spec.DocSpec, nDocs)
	for i := range docs {
		docs[i] = spec.DocSpec{ID: spec.B(fmt.Sprintf("d%d", i))}
	}
	var allTerms []string
	for fi, fname := range fields {
		maxT := 14
		if fi >= 1 {
			maxT = 4
		}
		minT := 0
		if fi == 0 && !gen.Chance(t, "fewTerms", 15) {
			minT = 4 // most cases: enough terms for automata and ranges to cut a proper subset
		}
		nTerms := rapid.IntRange(minT, maxT).Draw(t, fname+"nTerms")
		seen := map[string]bool{}
		perDoc := make([][]spec.TokenSpec, nDocs)
		for k := 0; k < nTerms; k++ {
			term := genDictTerm(t, fmt.Sprintf("%st%d", fname, k))
			if seen[term] {
				continue
			}
			seen[term] = true
			allTerms = append(allTerms, term)
			tl := fmt.Sprintf("%st%d", fname, k)
			single := gen.Chance(t, tl+"single", 45)
			locs := gen.Chance(t, tl+"locs", 30)
			first := rapid.IntRange(0, nDocs-1).Draw(t, tl+"doc")
			for d := 0; d < nDocs; d++ {
				in := d == first
				if !single && d != first {
					in = rapid.Bool().Draw(t, fmt.Sprintf("%sin%d", tl, d))
				}
				if !in {
					continue
				}
				tok := spec.TokenSpec{Term: spec.B(term), Freq: 1}
				if !single || gen.Chance(t, fmt.Sprintf("%sfreq%d", tl, d), 25) {
					tok.Freq = rapid.IntRange(1, 3).Draw(t, fmt.Sprintf("%sf%d", tl, d))
				}
				if locs {
					tok.Locs = []spec.LocSpec{{Pos: 1, Start: 0, End: 1}}
				}
				if fname == "z" {
					tok.Freq, tok.Locs = 0, nil
				}
				perDoc[d] = append(perDoc[d], tok)
			}
		}
		for d := 0; d < nDocs; d++ {
			if len(perDoc[d]) == 0 {
				continue
			}
			f := spec.FieldSpec{Name: fname, Type: 't', Tokens: perDoc[d]}
			for _, tok := range perDoc[d] {
				f.Len += tok.Freq
			}
			docs[d].Fields = append(docs[d].Fields, f)
		}
	}
	c.Batch = &spec.BatchSpec{Docs: docs}
	c.Provenance = rapid.SampledFrom([]int{2, 3, 0, 1, 4}).Draw(t, "provenance")
	if c.Provenance == 4 {
		c.Drops = []spec.DropSpec{gen.GenDrop(t, "dropNeighbour", 3), gen.GenDrop(t, "dropBatch", nDocs)}
	}
	c.ChunkMode = gen.ChunkMode(t, "cm")

	// bounds: mostly existing terms (so ranges cut the term set), plus neighbours
	boundPool := append(append([]string{}, allTerms...), "", "\x00", "a", "b", "c", "\x7f", "é", "zz", "ab", "a\x00")
	nQ := rapid.IntRange(1, 6).Draw(t, "nQueries")
	for i := 0; i < nQ; i++ {
		ql := fmt.Sprintf("q%d", i)
		q := dictQuery{Field: rapid.SampledFrom([]string{"f", "f", "f", "g", "z", "nosuchfield", "_id"}).Draw(t, ql+"field")}
		q.Auto = rapid.SampledFrom([]string{"nil", "all", "prefix", "regexp", "lev", "exact", "contains", "lenmod3", "never"}).Draw(t, ql+"auto")
		switch q.Auto {
		case "exact", "prefix", "lev":
			if len(allTerms) > 0 && rapid.Bool().Draw(t, ql+"argFromTerms") {
				q.Arg = spec.B(rapid.SampledFrom(allTerms).Draw(t, ql+"argTerm"))
			} else {
				q.Arg = spec.B(genDictTerm(t, ql+"arg"))
			}
			if q.Auto == "prefix" && len(q.Arg) > 1 && rapid.Bool().Draw(t, ql+"cut") {
				q.Arg = q.Arg[:1]
			}
			q.Dist = rapid.IntRange(1, 2).Draw(t, ql+"dist")
		case "regexp":
			n := rapid.IntRange(1, 4).Draw(t, ql+"nPieces")
			expr := ""
			for k := 0; k < n; k++ {
				expr += rapid.SampledFrom(regexpPieces).Draw(t, fmt.Sprintf("%sp%d", ql, k))
			}
			q.Arg = spec.B(expr)
		case "contains":
			q.Arg = spec.B(rapid.SampledFrom([]string{"a", "b", "\x00", "\xc3"}).Draw(t, ql+"byte"))
		}
		if rapid.Bool().Draw(t, ql+"hasStart") {
			q.HasStart = true
			q.Start = spec.B(rapid.SampledFrom(boundPool).Draw(t, ql+"start"))
		}
		if rapid.Bool().Draw(t, ql+"hasEnd") {
			q.HasEnd = true
			q.End = spec.B(rapid.SampledFrom(boundPool).Draw(t, ql+"end"))
		}
		if q.HasStart && q.HasEnd && !(string(q.Start) < string(q.End)) {
			// keep the range well-formed: start < end
			if string(q.Start) == string(q.End) {
				q.HasEnd = false
				q.End = ""
			} else {
				q.Start, q.End = q.End, q.Start
				if q.Start == "" {
					q.HasStart = false
				}
			}
		}
		c.Queries = append(c.Queries, q)
	}
	return c
}

// neighbourBatch is a fixed segment that has none of the dictionary fields.
func neighbourBatch() *spec.BatchSpec {
	b := &spec.BatchSpec{}
	for i := 0; i < 3; i++ {
		b.Docs = append(b.Docs, spec.DocSpec{ID: spec.B(fmt.Sprintf("o%d", i)), Fields: []spec.FieldSpec{{Name: "h", Type: 't', Len: 1, Tokens: []spec.TokenSpec{{Term: "x", Freq: 1}}}}})
	}
	return b
}

// dictPlan is the merge plan of provenance 4.
func dictPlan(c dictCase) *spec.MergePlan {
	drops := c.Drops
	for len(drops) < 2 {
		drops = append(drops, spec.DropSpec{Nil: true})
	}
	return &spec.MergePlan{ChunkMode: c.ChunkMode, Children: []spec.MergePlan{{Leaf: neighbourBatch(), ChunkMode: c.ChunkMode}, {Leaf: c.Batch, ChunkMode: c.ChunkMode, Mmap: true}}, Drops: drops[:2]}
}

// provenanceSegment builds the batch and takes it through the requested provenance.
func provenanceSegment(prop string, b *spec.BatchSpec, provenance int, chunkMode uint32) (segment.Segment, func(), *Violation) {
	switch provenance {
	case 0:
		return openVariant(prop, b, chunkMode, false)
	case 1:
		return openVariant(prop, b, chunkMode, true)
	}
	plan := &spec.MergePlan{ChunkMode: chunkMode, Children: []spec.MergePlan{{Leaf: b, ChunkMode: chunkMode}}, Drops: []spec.DropSpec{{Nil: true}}}
	if provenance == 3 {
		plan = &spec.MergePlan{ChunkMode: chunkMode, Children: []spec.MergePlan{*plan}, Drops: []spec.DropSpec{{}}}
	}
	var res *drive.PlanResult
	err := drive.Safe(func() error {
		var e error
		res, e = drive.RunPlan(plan)
		return e
	})
	if err != nil {
		return nil, nil, violation(prop, "provenance/error", "%v", err)
	}
	return res.Seg, res.Close, nil
}

func runDictCase(c dictCase) *Violation {
	const prop = "C08"
	want := spec.Expect(c.Batch)
	var seg segment.Segment
	var closeFn func()
	if c.Provenance == 4 {
		plan := dictPlan(c)
		want = spec.ExpectResolved(spec.Resolve(plan))
		var res *drive.PlanResult
		if err := drive.Safe(func() error {
			var e error
			res, e = drive.RunPlan(plan)
			return e
		}); err != nil {
			return violation(prop, "provenance/error", "%v", err)
		}
		seg, closeFn = res.Seg, res.Close
	} else {
		var v *Violation
		seg, closeFn, v = provenanceSegment(prop, c.Batch, c.Provenance, c.ChunkMode)
		if v != nil {
			return v
		}
	}
	defer closeFn()
	var v *Violation
	err := drive.Safe(func() error {
		type ent struct {
			term  string
			count uint64
		}
		type running struct {
			qi     int
			q      dictQuery
			itr    segment.DictionaryIterator
			exp    []ent
			got    []ent
			sorted []string
			done   bool
			desc   string
		}
		dicts := map[string]segment.TermDictionary{} // ONE dictionary object per field, shared by all its queries
		var runs []*running
		for qi, q := range c.Queries {
			a, err := buildAutomaton(q)
			if err != nil {
				continue // an expression the automaton library rejects is not a query
			}
			modelTerms := want.Index[q.Field]
			var sorted []string
			for t := range modelTerms {
				sorted = append(sorted, t)
			}
			sort.Strings(sorted)
			var exp []ent
			for _, t := range sorted {
				if q.HasStart && t < string(q.Start) {
					continue
				}
				if q.HasEnd && t >= string(q.End) {
					continue
				}
				if !accepts(a, []byte(t)) {
					continue
				}
				exp = append(exp, ent{t, uint64(len(modelTerms[t]))})
			}
			d := dicts[q.Field]
			if d == nil {
				d, err = seg.Dictionary(q.Field)
				if err != nil {
					return fmt.Errorf("Dictionary(%q): %w", q.Field, err)
				}
				dicts[q.Field] = d
			}
			var start, end []byte
			if q.HasStart {
				start = []byte(q.Start)
			}
			if q.HasEnd {
				end = []byte(q.End)
			}
			desc := fmt.Sprintf("query %d field %q automaton %s(%q,%d) range [%v %q, %v %q) provenance %d", qi, q.Field, q.Auto, q.Arg, q.Dist, q.HasStart, q.Start, q.HasEnd, q.End, c.Provenance)
			runs = append(runs, &running{qi: qi, q: q, itr: d.AutomatonIterator(a, start, end), exp: exp, sorted: sorted, desc: desc})
		}
		// drain all enumerations interleaved (one step each, round robin)
		for active := len(runs); active > 0; {
			active = 0
			for _, r := range runs {
				if r.done {
					continue
				}
				e, err := r.itr.Next()
				if err != nil {
					return fmt.Errorf("query %d iteration: %w", r.qi, err)
				}
				if e == nil || len(r.got) > len(r.sorted)+5 {
					r.done = true
					continue
				}
				r.got = append(r.got, ent{e.Term, e.Count})
				active++
			}
		}
		for _, r := range runs {
			got, exp, desc, q := r.got, r.exp, r.desc, r.q
			sorted, modelTerms := r.sorted, want.Index[r.q.Field]
			d := dicts[q.Field]
			if len(got) != len(exp) {
				v = violation(prop, "dict/term-set", "%s: got terms %q, model %q", desc, got, exp)
				return nil
			}
			for i := range exp {
				if got[i].term != exp[i].term {
					v = violation(prop, "dict/term-set", "%s: entry %d is %q, model %q (got %q, model %q)", desc, i, got[i].term, exp[i].term, got, exp)
					return nil
				}
				if got[i].count != exp[i].count {
					v = violation(prop, "dict/count", "%s: term %q reported with count %d, its postings list has %d documents", desc, got[i].term, got[i].count, exp[i].count)
					return nil
				}
			}
			// Contains and Cardinality agree with the same term set
			if d.Cardinality() != len(sorted) {
				v = violation(prop, "dict/cardinality", "field %q: Cardinality()=%d, model has %d terms", q.Field, d.Cardinality(), len(sorted))
				return nil
			}
			probe := append([]string{string(q.Arg), string(q.Start), string(q.End), "nosuchterm"}, sorted...)
			for _, t := range probe {
				ok, err := d.Contains([]byte(t))
				if err != nil {
					return fmt.Errorf("Contains(%q,%q): %w", q.Field, t, err)
				}
				if _, in := modelTerms[t]; ok != in {
					v = violation(prop, "dict/contains", "field %q: Contains(%q)=%v, model %v", q.Field, t, ok, in)
					return nil
				}
			}
		}
		// counts also hold under an exclusion-free direct lookup
		for f, terms := range want.Index {
			d, err := seg.Dictionary(f)
			if err != nil {
				return err
			}
			for t, hits := range terms {
				pl, err := d.PostingsList([]byte(t), (*roaring.Bitmap)(nil), nil)
				if err != nil {
					return err
				}
				if pl.Count() != uint64(len(hits)) {
					v = violation(prop, "dict/list-count", "field %q term %q: postings Count()=%d, model %d", f, t, pl.Count(), len(hits))
					return nil
				}
			}
		}
		return nil
	})
	if err != nil {
		return violation(prop, "dict/error", "%v", err)
	}
	return v
}

var c08 = Check[dictCase]{
	Property: "C08", Stage: "dictionary",
	Gen: genDictCase, Run: runDictCase,
	Classify: func(c dictCase) (bool, []string) {
		want := spec.Expect(c.Batch)
		if c.Provenance == 4 {
			want = spec.ExpectResolved(spec.Resolve(dictPlan(c)))
		}
		cl := []string{fmt.Sprintf("provenance=%d", c.Provenance)}
		terms := want.Index["f"]
		nt := false
		oneHitThenGeneral := false
		var sorted []string
		for t := range terms {
			sorted = append(sorted, t)
		}
		sort.Strings(sorted)
		is1Hit := func(t string) bool {
			h := terms[t]
			return len(h) == 1 && h[0].Freq == 1 && len(h[0].Locs) == 0
		}
		for i := 1; i < len(sorted); i++ {
			if is1Hit(sorted[i-1]) && !is1Hit(sorted[i]) {
				oneHitThenGeneral = true
			}
		}
		if oneHitThenGeneral && c.Provenance >= 2 {
			cl = append(cl, "1hit-then-general-entry")
		}
		for _, q := range c.Queries {
			cl = append(cl, "auto="+q.Auto)
			if q.Field != "f" {
				continue
			}
			a, err := buildAutomaton(q)
			if err != nil {
				cl = append(cl, "automaton-rejected")
				continue
			}
			acc, cut := 0, 0
			for _, t := range sorted {
				inRange := !(q.HasStart && t < string(q.Start)) && !(q.HasEnd && t >= string(q.End))
				if !inRange {
					cut++
				}
				if accepts(a, []byte(t)) {
					acc++
				}
			}
			if len(sorted) >= 3 && acc > 0 && acc < len(sorted) && cut >= 1 {
				nt = true
			}
		}
		return nt, dedup(cl)
	},
}

var _ = bytes.Equal

func init() { c08.register() }

func TestC08(t *testing.T) {
	drive.CheckDictCounts = true
	defer func() { drive.CheckDictCounts = false }()
	c08.Rapid(t)
}

// dictAgainstModel enumerates every field's dictionary without automaton or range and compares
// the (term, count) list with the model.
func dictAgainstModel(prop string, seg segment.Segment, want *spec.Obs, tag string) *Violation {
	var v *Violation
	err := drive.Safe(func() error {
		for f, terms := range want.Index {
			var sorted []string
			for t := range terms {
				sorted = append(sorted, t)
			}
			sort.Strings(sorted)
			d, err := seg.Dictionary(f)
			if err != nil {
				return err
			}
			itr := d.AutomatonIterator(nil, nil, nil)
			i := 0
			for {
				e, err := itr.Next()
				if err != nil {
					return err
				}
				if e == nil {
					break
				}
				if i >= len(sorted) || e.Term != sorted[i] {
					v = violation(prop, "dict/term-set", "%s: field %q entry %d is %q, model terms %q", tag, f, i, e.Term, sorted)
					return nil
				}
				if e.Count != uint64(len(terms[e.Term])) {
					v = violation(prop, "dict/count", "%s: field %q term %q reported with count %d, model %d documents", tag, f, e.Term, e.Count, len(terms[e.Term]))
					return nil
				}
				i++
			}
			if i != len(sorted) {
				v = violation(prop, "dict/term-set", "%s: field %q enumerates %d terms, model %d", tag, f, i, len(sorted))
				return nil
			}
		}
		return nil
	})
	if err != nil {
		return violation(prop, "dict/error", "%s: %v", tag, err)
	}
	return v
}

// Deterministic scenarios: dictionaries of segments merged two and three times (the later merges
// copy posting details byte-wise), with terms of more than 1024 documents next to sparse ones.
func runDictRemerge(cs planCase) *Violation {
	var res *drive.PlanResult
	if err := drive.Safe(func() error {
		var e error
		res, e = drive.RunPlan(cs.Plan)
		return e
	}); err != nil {
		return violation("C08", "provenance/error", "%v", err)
	}
	defer res.Close()
	for ni, node := range res.Nodes {
		want := spec.ExpectResolved(spec.Resolve(node.Plan))
		if v := dictAgainstModel("C08", node.Seg, want, fmt.Sprintf("merge generation %d", ni+1)); v != nil {
			return v
		}
	}
	return nil
}

func init() {
	registry["C08/dictionary-remerge"] = func(raw json.RawMessage) *Violation {
		var cs planCase
		if err := json.Unmarshal(raw, &cs); err != nil {
			return violation("C08", "replay/bad-case-file", "%v", err)
		}
		return runDictRemerge(cs)
	}
}

// runDictBig: a term present in every document of more than 65536 documents (its postings bitmap
// has a completely full 16-bit container): dictionary counts of the built and the re-opened segment.
func runDictBig(w spec.WideSpec) *Violation {
	b := &spec.BatchSpec{Wide: &w}
	want := spec.Expect(b)
	for _, prov := range []int{0, 1} {
		seg, closeFn, v := provenanceSegment("C08", b, prov, 0)
		if v != nil {
			return v
		}
		v = dictAgainstModel("C08", seg, want, fmt.Sprintf("provenance %d, %d documents", prov, w.N))
		closeFn()
		if v != nil {
			return v
		}
	}
	return nil
}

func init() {
	registry["C08/dictionary-big"] = func(raw json.RawMessage) *Violation {
		var w spec.WideSpec
		if err := json.Unmarshal(raw, &w); err != nil {
			return violation("C08", "replay/bad-case-file", "%v", err)
		}
		return runDictBig(w)
	}
}

func TestC08Big(t *testing.T) {
	col := stats.New("C08", "dictionary-big")
	defer col.Write()
	w := spec.WideSpec{N: 65536 + 8, Period: 2}
	col.CaseHash(stats.HashJSON(w), true, []string{"term-in-every-document-of-a-full-65536-block"}, func() any { return sampleOf(w) })
	reportBig(t, col, "C08", "dictionary-big", w, runDictBig(w))
	// a term with locations in 6 of every 7 of 76000 documents: posting details beyond 2 MiB, a
	// serialized bitmap beyond 16 KiB (every length field of the postings header needs 3..4 bytes)
	w2 := spec.WideSpec{N: 76000, Period: 3, Locs: true, Gap: 7}
	col.CaseHash(stats.HashJSON(w2), true, []string{"postings-header-with-long-varints"}, func() any { return sampleOf(w2) })
	reportBig(t, col, "C08", "dictionary-big", w2, runDictBig(w2))
}

func TestC08Fixed(t *testing.T) {
	col := stats.New("C08", "dictionary-remerge")
	defer col.Write()
	for _, c := range c06FixedPlans() {
		if len(c.Plan.Children) != 1 {
			continue // only the re-merged variants
		}
		cs := planCase{Plan: &spec.MergePlan{ChunkMode: c.Plan.ChunkMode, Children: []spec.MergePlan{*c.Plan}, Drops: []spec.DropSpec{{Nil: true}}}}
		col.CaseHash(stats.HashJSON(cs), true, []string{"merged-three-times", "list>1024"}, func() any { return sampleOf(cs) })
		reportBig(t, col, "C08", "dictionary-remerge", cs, runDictRemerge(cs))
	}
}
