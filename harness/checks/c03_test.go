package checks

import (
	"fmt"
	"os"
	"reflect"
	"sort"
	"testing"

	"github.com/RoaringBitmap/roaring/v2"
	segment "github.com/blevesearch/scorch_segment_api/v2"
	zap "github.com/blevesearch/zapx/v16"
	"pgregory.net/rapid"

	"verifharness/drive"
	"verifharness/gen"
	"verifharness/spec"
)

func removeFile(path string) {
	if path != "" {
		os.Remove(path)
	}
}

// C03 — doc values.

type dvVisit struct {
	Seg int    `json:"seg"` // 0 = A, 1 = B
	Doc uint64 `json:"doc"`
	St  int    `json:"st,omitempty"` // which of the two visit states is used
}

type dvCase struct {
	A, B       *spec.BatchSpec
	MmapA      bool     `json:"mmapA"`
	MmapB      bool     `json:"mmapB"`
	ChunkMode  uint32   `json:"chunkMode"`
	DVChunk    uint32   `json:"dvChunk"` // LegacyChunkMode for writer and reader
	Fields     []string `json:"fields"`  // field list handed to VisitDocValues
	FreshState bool     `json:"freshState"`
	MergeFirst bool     `json:"mergeFirst"` // both segments serve as merge inputs before the scripted visits
	TwoStates  bool     `json:"twoStates"`  // the script alternates between two private visit states
	Script     []dvVisit
}

var dvChunkPalette = []uint32{1024, 1, 2, 3, 5, 16}

func genDVCase(t *rapid.T) dvCase {
	o := gen.DefaultSchemaOpts()
	o.ForceDV = true
	o.MinFields = 2
	s := gen.GenSchema(t, o)
	c := dvCase{}
	c.A = s.GenBatch(t, "a", gen.BatchOpts{MaxDocs: 24, AllowWide: true, WidePct: 4})
	c.B = s.GenBatch(t, "b", gen.BatchOpts{MaxDocs: 12, AllowEmpty: true})
	c.MmapA = rapid.Bool().Draw(t, "mmapA")
	c.MmapB = rapid.Bool().Draw(t, "mmapB")
	c.ChunkMode = gen.ChunkMode(t, "cm")
	if gen.Chance(t, "dvAny", 15) {
		c.DVChunk = uint32(rapid.IntRange(1, 1024).Draw(t, "dvChunkAny"))
	} else {
		c.DVChunk = rapid.SampledFrom(dvChunkPalette).Draw(t, "dvChunk")
	}
	// field list: random subset of schema fields + composite + unknown names
	pool := append(s.FieldNames(), "nosuchfield", "_id")
	if s.Composite != "" {
		pool = append(pool, s.Composite)
	}
	if c.A.Wide != nil {
		pool = append(pool, spec.WideFieldName)
	}
	if gen.Chance(t, "allFields", 50) {
		c.Fields = pool
	} else {
		c.Fields = rapid.SliceOfNDistinct(rapid.SampledFrom(pool), 1, len(pool), rapid.ID[string]).Draw(t, "fields")
	}
	c.FreshState = gen.Chance(t, "freshState", 20)
	c.MergeFirst = gen.Chance(t, "mergeFirst", 35)
	c.TwoStates = gen.Chance(t, "twoStates", 40)
	na, nb := c.A.NumDocs(), c.B.NumDocs()
	n := rapid.IntRange(1, 40).Draw(t, "nVisits")
	for i := 0; i < n; i++ {
		v := dvVisit{}
		if nb > 0 && gen.Chance(t, fmt.Sprintf("v%dB", i), 30) {
			v.Seg = 1
			v.Doc = uint64(rapid.IntRange(0, nb-1).Draw(t, fmt.Sprintf("v%ddocB", i)))
		} else {
			v.Doc = uint64(rapid.IntRange(0, na-1).Draw(t, fmt.Sprintf("v%ddocA", i)))
		}
		if c.TwoStates {
			v.St = rapid.IntRange(0, 1).Draw(t, fmt.Sprintf("v%dst", i))
		}
		c.Script = append(c.Script, v)
	}
	return c
}

func runDVCase(c dvCase) *Violation {
	const prop = "C03"
	old := zap.LegacyChunkMode
	zap.LegacyChunkMode = c.DVChunk
	defer func() { zap.LegacyChunkMode = old }()

	wants := [2]*spec.Obs{spec.Expect(c.A), spec.Expect(c.B)}
	var segs [2]segment.Segment
	for i, b := range []*spec.BatchSpec{c.A, c.B} {
		mm := c.MmapA
		if i == 1 {
			mm = c.MmapB
		}
		seg, closeFn, v := openVariant(prop, b, c.ChunkMode, mm)
		if v != nil {
			return v
		}
		defer closeFn()
		segs[i] = seg
	}
	// full sequential observation of both segments (Observe uses one state per segment)
	for i := range segs {
		got, err := drive.Observe(segs[i])
		if err != nil {
			return violation(prop, "observe/error", "segment %d: %v", i, err)
		}
		if d := spec.Diff(wants[i], got, spec.DiffOpts{SkipIndex: true, SkipStored: true, SkipThes: true}); d != "" {
			return violation(prop, "dv/sequential-mismatch", "segment %d: %s", i, d)
		}
	}
	if c.MergeFirst {
		// serving as a merge input must not change what later visits see
		if err := drive.Safe(func() error {
			path := drive.NewPath("c03m")
			defer os.Remove(path)
			_, _, e := drive.Merge(segs[:], []*roaring.Bitmap{nil, nil}, path, c.ChunkMode, nil, nil)
			return e
		}); err != nil {
			return violation(prop, "dv/merge-error", "merging the two segments: %v", err)
		}
	}
	// scripted visits with a shared state (or two private ones used alternately)
	var v *Violation
	err := drive.Safe(func() error {
		var states [2]segment.DocVisitState
		// the caller keeps ONE field list for all its visits; the oracle reads the case's own copy
		fieldsArg := append([]string(nil), c.Fields...)
		for step, vis := range c.Script {
			st := states[vis.St&1]
			dvs := segs[vis.Seg].(segment.DocValueVisitable)
			got := map[string][]string{}
			if c.FreshState {
				st = nil
			}
			var err error
			st, err = dvs.VisitDocValues(vis.Doc, fieldsArg, func(field string, term []byte) {
				got[field] = append(got[field], string(term))
			}, st)
			if err != nil {
				return fmt.Errorf("step %d VisitDocValues(seg %d, doc %d): %w", step, vis.Seg, vis.Doc, err)
			}
			states[vis.St&1] = st
			if !reflect.DeepEqual(fieldsArg, c.Fields) {
				v = violation(prop, "dv/field-list-modified", "step %d (seg %d, doc %d): VisitDocValues changed the caller's field list from %q to %q", step, vis.Seg, vis.Doc, c.Fields, fieldsArg)
				return nil
			}
			want := map[string][]string{}
			for _, f := range c.Fields {
				if terms := wants[vis.Seg].DV[f][vis.Doc]; len(terms) > 0 {
					want[f] = terms
				}
			}
			for f := range got {
				sort.Strings(got[f])
			}
			if !reflect.DeepEqual(want, got) {
				v = violation(prop, "dv/script-mismatch", "step %d (seg %d, doc %d, dvChunk %d, fields %q): got %q, model %q", step, vis.Seg, vis.Doc, c.DVChunk, c.Fields, got, want)
				return nil
			}
		}
		return nil
	})
	if err != nil {
		return violation(prop, "dv/error", "%v", err)
	}
	return v
}

var c03 = Check[dvCase]{
	Property: "C03", Stage: "docvalues",
	Gen: genDVCase, Run: runDVCase,
	Classify: func(c dvCase) (bool, []string) {
		var cl []string
		back, sw := false, false
		for i := 1; i < len(c.Script); i++ {
			p, q := c.Script[i-1], c.Script[i]
			if p.Seg != q.Seg {
				sw = true
			} else if q.Doc/uint64(c.DVChunk) < p.Doc/uint64(c.DVChunk) {
				back = true
			}
		}
		if back {
			cl = append(cl, "backward-chunk-jump")
		}
		if sw && !c.FreshState {
			cl = append(cl, "state-reused-across-segments")
		}
		if int(c.DVChunk) < c.A.NumDocs() {
			cl = append(cl, "multi-chunk")
		}
		if c.MmapA != c.MmapB {
			cl = append(cl, "mem+mmap")
		}
		if c.FreshState {
			cl = append(cl, "fresh-state")
		}
		o := spec.Expect(c.A)
		if len(o.DV) > 0 {
			cl = append(cl, "has-dv-content")
		}
		return (back || (sw && !c.FreshState)) && len(o.DV) > 0, cl
	},
}

func init() { c03.register() }

func TestC03(t *testing.T) { c03.Rapid(t) }
