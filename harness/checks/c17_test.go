package checks

import (
	"bytes"
	"fmt"
	"io"
	"os"
	"path/filepath"
	"sort"
	"sync"
	"syscall"
	"testing"
	"time"

	"github.com/RoaringBitmap/roaring/v2"
	segment "github.com/blevesearch/scorch_segment_api/v2"
	zap "github.com/blevesearch/zapx/v16"
	"pgregory.net/rapid"

	"verifharness/drive"
	"verifharness/faults"
	"verifharness/gen"
	"verifharness/spec"
)

// C17 — a failed write yields an error and no file; success means a complete file.

type faultCase struct {
	Op      string          `json:"op"` // writeto persist merge
	Plan    *spec.MergePlan `json:"plan"`
	BufSize int             `json:"bufSize"`         // DefaultFileMergerBufferSize for merge
	Fracs   []uint16        `json:"fracs"`           // extra offsets as fractions of the output size
	Dense   bool            `json:"dense,omitempty"` // enumerate every offset regardless of size
	// Reserved: the destination path already exists as an EMPTY file when the operation starts
	// (the caller reserved the name, as os.CreateTemp does)
	Reserved bool `json:"reserved,omitempty"`
}

// reserve creates the empty destination file of a Reserved case.
func (c faultCase) reserve(path string) {
	if c.Reserved {
		if f, err := os.OpenFile(path, os.O_CREATE|os.O_WRONLY, 0o600); err == nil {
			f.Close()
		}
	}
}

// syncFaultPath returns a destination on which every write succeeds and the final sync fails:
// a FIFO. It models a write failure that the operating system reports only when the file is
// synced. A background reader drains the pipe (so that writes of any size complete) until the
// path is removed again.
func syncFaultPath(tag string) (string, bool) {
	p := drive.NewPath(tag)
	if err := syscall.Mkfifo(p, 0o600); err != nil {
		return "", false
	}
	r, err := os.OpenFile(p, os.O_RDONLY|syscall.O_NONBLOCK, 0)
	if err != nil {
		os.Remove(p)
		return "", false
	}
	go func() {
		defer r.Close()
		buf := make([]byte, 64<<10)
		for idle := 0; idle < 30000; {
			n, err := r.Read(buf)
			if n > 0 {
				idle = 0
				continue
			}
			if err != nil && err != io.EOF {
				return
			}
			// no writer at the moment: finished once the destination is gone
			if _, serr := os.Lstat(p); serr != nil {
				return
			}
			idle++
			time.Sleep(time.Millisecond)
		}
	}()
	return p, true
}

func genFaultCase(t *rapid.T) faultCase {
	c := faultCase{Op: rapid.SampledFrom([]string{"merge", "persist", "writeto"}).Draw(t, "op")}
	pc := genPlanCase(t, planGenOpts{synonyms: 1, vectors: vectorsMaybe, forceDV: true, bigValuesPct: 30})
	if c.Op == "merge" {
		c.Plan = pc.Plan
	} else {
		// first leaf of the generated plan
		var leaf *spec.MergePlan
		best := -1
		walkPlan(pc.Plan, func(p *spec.MergePlan) {
			if !p.IsLeaf() {
				return
			}
			n := 0
			for _, d := range p.Leaf.Docs {
				for _, f := range d.Fields {
					n += len(f.Value)
				}
			}
			if n > best { // the leaf with most stored bytes (bodies >= 64 KiB take other write paths)
				leaf, best = p, n
			}
		})
		c.Plan = &spec.MergePlan{Leaf: leaf.Leaf, ChunkMode: leaf.ChunkMode}
	}
	c.BufSize = rapid.SampledFrom([]int{64, 1, 7, 4096, 1 << 20}).Draw(t, "bufSize")
	c.Fracs = rapid.SliceOfN(rapid.Uint16(), 8, 24).Draw(t, "fracs")
	c.Reserved = gen.Chance(t, "reserved", 35)
	return c
}

func faultOffsets(size int, bufSize int, fracs []uint16, dense bool) []int {
	set := map[int]bool{}
	// every offset for small outputs; larger ones by offset classes (the budget per case is bounded:
	// a 100 KiB output would otherwise mean 100 000 operations of 100 KiB each)
	limit := 600
	if dense {
		limit = 8192
	}
	if size <= limit {
		for i := 0; i < size; i++ {
			set[i] = true
		}
	} else {
		edge := 64
		if dense {
			edge = 256
		}
		for i := 0; i < edge && i < size; i++ {
			set[i] = true
			set[size-1-i] = true
		}
		step := bufSize
		if step < 1 {
			step = 1
		}
		n := 0
		for off := step; off < size && n < 40; off += step {
			set[off] = true
			set[off-1] = true
			n++
		}
		for off := 4096; off < size; off += 4096 { // bufio default for Persist
			set[off] = true
			set[off-1] = true
		}
		for _, f := range fracs {
			set[int(uint64(f)*uint64(size)/65536)] = true
		}
	}
	out := make([]int, 0, len(set))
	for o := range set {
		if o >= 0 && o < size {
			out = append(out, o)
		}
	}
	sort.Ints(out)
	return out
}

var faultStats struct {
	faulted, body, fit, syncFaults int64
}

func runFaultCase(c faultCase) *Violation {
	const prop = "C17"
	oldBuf := zap.DefaultFileMergerBufferSize
	zap.DefaultFileMergerBufferSize = c.BufSize
	defer func() { zap.DefaultFileMergerBufferSize = oldBuf }()
	dense := c.Dense || os.Getenv("VERIF_TIER") == "thorough"

	switch c.Op {
	case "writeto", "persist":
		want := spec.Expect(c.Plan.Leaf)
		var seg segment.Segment
		if err := drive.Safe(func() error {
			var e error
			seg, _, e = drive.Build(c.Plan.Leaf, c.Plan.ChunkMode)
			return e
		}); err != nil {
			return violation(prop, "build/error", "%v", err)
		}
		defer seg.Close()
		sb := seg.(*zap.SegmentBase)
		// fault-free run
		path, err := drive.Persist(seg, "c17")
		defer removeFile(path)
		if err != nil {
			return violation(prop, "nofault/persist-error", "fault-free Persist failed: %v", err)
		}
		data, _ := os.ReadFile(path)
		size := len(data)
		if v := checkFooter(prop, data, want.Count, effMode(c.Plan.ChunkMode)); v != nil {
			v.Signature = "nofault/" + v.Signature
			return v
		}
		if v := reopenAndCompare(prop, path, want, spec.DiffOpts{}); v != nil {
			return v
		}
		for _, off := range faultOffsets(size, 4096, c.Fracs, dense || (c.Op == "writeto" && size <= 16384)) {
			faultStats.faulted++
			if off > 0 && off < size-zap.FooterSize {
				faultStats.body++
			}
			if c.Op == "writeto" && (off%7 == 0 || off < 64 || off > size-64) {
				// a destination that fails ONE write (a short write with an error that calls itself
				// temporary, or a plain I/O error) and then works again: an error may be reported,
				// but success is only acceptable with exactly the image in the destination
				for _, terr := range []error{syscall.EAGAIN, syscall.EINTR, syscall.EIO} {
					tw := &faults.TransientWriter{At: off, Err: terr}
					var werr error
					if perr := drive.Safe(func() error { _, werr = sb.WriteTo(tw); return nil }); perr != nil {
						return violation(prop, "writeto/panic", "WriteTo with a writer failing once at offset %d of %d: %v", off, size, perr)
					}
					if werr == nil && tw.Failed() && !bytes.Equal(tw.Buf, data) {
						return violation(prop, "writeto/transient-fault-swallowed", "WriteTo returned nil although one write failed (%v, short write at offset %d of %d) and the destination holds %d bytes that are not the image", terr, off, size, len(tw.Buf))
					}
				}
			}
			if c.Op == "writeto" {
				w := &faults.FailingWriter{Limit: off}
				var n int64
				var werr error
				if perr := drive.Safe(func() error { n, werr = sb.WriteTo(w); return nil }); perr != nil {
					return violation(prop, "writeto/panic", "WriteTo with a writer failing at offset %d of %d: %v", off, size, perr)
				}
				if werr == nil {
					return violation(prop, "writeto/fault-swallowed", "WriteTo returned nil (n=%d) although the writer failed at offset %d of %d", n, off, size)
				}
				continue
			}
			p2 := drive.NewPath("c17f")
			c.reserve(p2)
			var perr error
			lerr := faults.WithFileSizeLimit(uint64(off), func() {
				perr = drive.Safe(func() error { return sb.Persist(p2) })
			})
			if lerr != nil {
				return nil // cannot inject here: not a verdict
			}
			_, serr := os.Stat(p2)
			os.Remove(p2)
			if perr == nil {
				return violation(prop, "persist/fault-swallowed", "Persist returned nil although the file system accepted only %d of %d bytes", off, size)
			}
			if serr == nil {
				return violation(prop, "persist/file-left-behind", "Persist failed (%v) at offset %d of %d but left a file at the path", perr, off, size)
			}
		}
		// the failure is reported only by the final sync (outputs up to 256 KiB; the pipe is drained in the background)
		if c.Op == "persist" && size <= 256<<10 {
			if p3, ok := syncFaultPath("c17s"); ok {
				perr := drive.Safe(func() error { return sb.Persist(p3) })
				_, serr := os.Lstat(p3)
				os.Remove(p3)
				faultStats.syncFaults++
				if perr == nil {
					return violation(prop, "persist/sync-fault-swallowed", "Persist returned nil although syncing the destination failed")
				}
				if serr == nil {
					return violation(prop, "persist/file-left-behind", "Persist failed (%v) when the destination was synced but left something at the path", perr)
				}
			}
		}
		// un-creatable path
		bad := filepath.Join(drive.ScratchDir(), "no-such-dir", "x.zap")
		if err := sb.Persist(bad); err == nil {
			return violation(prop, "persist/uncreatable-path", "Persist to a path in a missing directory returned nil")
		}
		// two overlapping fault-free WriteTo calls (this segment and a small other one) after all the
		// failures: each destination must receive exactly its own image
		if v := overlappingWriteTo(prop, sb, data); v != nil {
			return v
		}
		// fault-free once more after all the failures
		p4 := drive.NewPath("c17pa")
		defer os.Remove(p4)
		if err := drive.Safe(func() error { return sb.Persist(p4) }); err != nil {
			return violation(prop, "nofault/persist-error-after-faults", "a fault-free Persist after the failed ones failed: %v", err)
		}
		d4, _ := os.ReadFile(p4)
		if !bytes.Equal(d4, data) {
			return violation(prop, "nofault/after-faults-bytes", "a fault-free Persist after the failed ones wrote %d bytes that differ from the first fault-free run's %d bytes", len(d4), len(data))
		}
		return nil

	case "merge":
		// build the children of the root normally, fault only the root merge
		root := c.Plan
		var res []*drive.PlanResult
		defer func() {
			for _, r := range res {
				r.Close()
			}
		}()
		segs := make([]segment.Segment, len(root.Children))
		drops := make([]*roaring.Bitmap, len(root.Children))
		for i := range root.Children {
			var r *drive.PlanResult
			if err := drive.Safe(func() error {
				var e error
				r, e = drive.RunPlan(&root.Children[i])
				return e
			}); err != nil {
				return violation(prop, "inputs/error", "%v", err)
			}
			res = append(res, r)
			segs[i] = r.Seg
			drops[i] = drive.Bitmap(root.Drops[i])
		}
		r := spec.Resolve(root)
		want := spec.ExpectResolved(r)
		path := drive.NewPath("c17m")
		c.reserve(path)
		defer os.Remove(path)
		var size uint64
		if err := drive.Safe(func() error {
			var e error
			_, size, e = drive.Merge(segs, drops, path, root.ChunkMode, nil, nil)
			return e
		}); err != nil {
			return violation(prop, "nofault/merge-error", "fault-free Merge failed: %v", err)
		}
		data, _ := os.ReadFile(path)
		if uint64(len(data)) != size {
			return violation(prop, "nofault/size", "Merge reported %d bytes, file has %d", size, len(data))
		}
		if v := checkFooter(prop, data, want.Count, effMode(root.ChunkMode)); v != nil {
			v.Signature = "nofault/" + v.Signature
			return v
		}
		opts := spec.DiffOpts{DVFieldsSub: true, FieldsAnyOf: [][]string{r.Fields, r.FieldsAlt}}
		if r.ZeroSurvivors {
			opts.FieldsAnyOf = [][]string{nil, r.UnionFields, r.FieldsAlt}
		}
		if v := reopenAndCompare(prop, path, want, opts); v != nil {
			return v
		}
		for _, off := range faultOffsets(len(data), c.BufSize, c.Fracs, dense) {
			faultStats.faulted++
			if off > 0 && off < len(data)-zap.FooterSize {
				faultStats.body++
			}
			p2 := drive.NewPath("c17mf")
			c.reserve(p2)
			var merr error
			lerr := faults.WithFileSizeLimit(uint64(off), func() {
				merr = drive.Safe(func() error {
					_, _, e := drive.Merge(segs, drops, p2, root.ChunkMode, nil, nil)
					return e
				})
			})
			if lerr != nil {
				return nil
			}
			st2, serr := os.Stat(p2)
			if merr == nil {
				// the bytes of a merge output are not deterministic (section order), so
				// this run's output may legitimately be a few bytes shorter and fit under
				// the limit: success is acceptable only for a complete, correct file
				if serr == nil && st2.Size() <= int64(off) {
					d2, _ := os.ReadFile(p2)
					v := checkFooter(prop, d2, want.Count, effMode(root.ChunkMode))
					if v == nil {
						v = reopenAndCompare(prop, p2, want, opts)
					}
					os.Remove(p2)
					if v == nil {
						faultStats.fit++
						continue
					}
					v.Signature = "merge/fault-swallowed"
					v.Message = fmt.Sprintf("Merge returned nil under a %d-byte limit (fault-free size %d, buffer %d) and its file is not complete: %s", off, len(data), c.BufSize, v.Message)
					return v
				}
				os.Remove(p2)
				return violation(prop, "merge/fault-swallowed", "Merge returned nil although the file system accepted only %d of %d bytes (buffer %d)", off, len(data), c.BufSize)
			}
			os.Remove(p2)
			if serr == nil {
				return violation(prop, "merge/file-left-behind", "Merge failed (%v) at offset %d of %d (buffer %d) but left a file at the path", merr, off, len(data), c.BufSize)
			}
		}
		// the same inputs with EVERY document deleted (a merge without survivors), under the same kind of fault
		if v := allDroppedMergeFaults(prop, c, segs, root.ChunkMode); v != nil {
			return v
		}
		if len(data) <= 256<<10 {
			if p3, ok := syncFaultPath("c17ms"); ok {
				merr := drive.Safe(func() error {
					_, _, e := drive.Merge(segs, drops, p3, root.ChunkMode, nil, nil)
					return e
				})
				_, serr := os.Lstat(p3)
				os.Remove(p3)
				faultStats.syncFaults++
				if merr == nil {
					return violation(prop, "merge/sync-fault-swallowed", "Merge returned nil although syncing the destination failed")
				}
				if serr == nil {
					return violation(prop, "merge/file-left-behind", "Merge failed (%v) when the destination was synced but left something at the path", merr)
				}
			}
		}
		bad := filepath.Join(drive.ScratchDir(), "no-such-dir", "m.zap")
		if _, _, err := drive.Merge(segs, drops, bad, root.ChunkMode, nil, nil); err == nil {
			return violation(prop, "merge/uncreatable-path", "Merge to a path in a missing directory returned nil")
		}
		// the degenerate merge of no inputs: whatever it reports must be true of the path
		pz := drive.NewPath("c17mz")
		var sizeZ uint64
		zerr := drive.Safe(func() error {
			var e error
			_, sizeZ, e = drive.Merge(nil, nil, pz, root.ChunkMode, nil, nil)
			return e
		})
		dz, rerr := os.ReadFile(pz)
		os.Remove(pz)
		if zerr == nil {
			if rerr != nil {
				return violation(prop, "merge/success-without-file", "Merge of an empty input list returned nil but there is no file: %v", rerr)
			}
			if uint64(len(dz)) != sizeZ {
				return violation(prop, "nofault/size", "Merge of an empty input list reported %d bytes, file has %d", sizeZ, len(dz))
			}
			if v := checkFooter(prop, dz, 0, effMode(root.ChunkMode)); v != nil {
				v.Signature = "nofault/empty-merge-" + v.Signature
				return v
			}
		} else if rerr == nil {
			return violation(prop, "merge/file-left-behind", "Merge of an empty input list failed (%v) but left a file at the path", zerr)
		}
		// the same merge once more, fault-free, right after all the failed ones: whatever the
		// failures left behind in the process must not show in a merge that reports success
		p4 := drive.NewPath("c17ma")
		defer os.Remove(p4)
		var size4 uint64
		if err := drive.Safe(func() error {
			var e error
			_, size4, e = drive.Merge(segs, drops, p4, root.ChunkMode, nil, nil)
			return e
		}); err != nil {
			return violation(prop, "nofault/merge-error-after-faults", "a fault-free Merge after the failed ones failed: %v", err)
		}
		d4, _ := os.ReadFile(p4)
		if uint64(len(d4)) != size4 {
			return violation(prop, "nofault/size-after-faults", "a fault-free Merge after the failed ones reported %d bytes, its file has %d", size4, len(d4))
		}
		if v := checkFooter(prop, d4, want.Count, effMode(root.ChunkMode)); v != nil {
			v.Signature = "nofault/after-faults-" + v.Signature
			return v
		}
		if v := reopenAndCompare(prop, p4, want, opts); v != nil {
			v.Signature = "nofault/after-faults-" + v.Signature
			return v
		}
		return nil
	}
	return violation(prop, "case/bad-op", "unknown op %q", c.Op)
}

// reopenAndCompare opens a file and compares its full observation with the model.
func reopenAndCompare(prop, path string, want *spec.Obs, opts spec.DiffOpts) *Violation {
	var got *spec.Obs
	var vv *Violation
	err := drive.Safe(func() error {
		seg, e := drive.Open(path)
		if e != nil {
			return e
		}
		defer seg.Close()
		got, e = drive.Observe(seg)
		if e == nil && len(want.Vec) > 0 {
			// (vectors tag) every surviving vector must be in the file, too
			vv = vectorSegmentCheck(prop, seg, want, "a file reported as written successfully")
		}
		return e
	})
	if err != nil {
		return violation(prop, "nofault/reopen-error", "a file reported as written successfully does not re-open: %v", err)
	}
	if vv != nil {
		return vv
	}
	if d := spec.Diff(want, got, opts); d != "" {
		return violation(prop, "nofault/content-mismatch", "a file reported as written successfully re-opens with other content: %s", d)
	}
	return nil
}

var c17 = Check[faultCase]{
	Property: "C17", Stage: "write-faults",
	Gen: genFaultCase, Run: runFaultCase,
	Classify: func(c faultCase) (bool, []string) {
		r := spec.Resolve(c.Plan)
		cl := []string{"op=" + c.Op, fmt.Sprintf("buf=%d", c.BufSize)}
		if c.Reserved {
			cl = append(cl, "destination-reserved(empty-file)")
		}
		return len(r.Docs) > 0, cl
	},
	Extra: func() map[string]any {
		return map[string]any{"faulted_operations": faultStats.faulted, "faults_strictly_inside_body": faultStats.body, "merge_outputs_that_fit_under_the_limit": faultStats.fit, "failures_reported_at_sync": faultStats.syncFaults}
	},
}

func TestC17(t *testing.T) {
	if err := faults.SelfTest(drive.ScratchDir()); err != nil {
		t.Fatalf("fault injector unusable here: %v", err)
	}
	c17.Rapid(t)
}

func init() { c17.register() }

// gateWriter collects what it is given; its first Write announces itself and waits (bounded) until
// the other writer of the pair has been written to as well, so that the two WriteTo calls overlap.
type gateWriter struct {
	buf          bytes.Buffer
	mine, theirs chan struct{}
	once         sync.Once
}

func (g *gateWriter) Write(p []byte) (int, error) {
	g.once.Do(func() {
		close(g.mine)
		select {
		case <-g.theirs:
		case <-time.After(2 * time.Second): // the calls do not overlap: fine, nothing to learn
		}
	})
	return g.buf.Write(p)
}

var otherImage struct {
	once sync.Once
	sb   *zap.SegmentBase
	data []byte
}

func overlappingWriteTo(prop string, sb *zap.SegmentBase, data []byte) *Violation {
	otherImage.once.Do(func() {
		b := &spec.BatchSpec{}
		for i := 0; i < 3; i++ {
			b.Docs = append(b.Docs, spec.DocSpec{ID: spec.B(fmt.Sprintf("other%d", i)), Fields: []spec.FieldSpec{{Name: "o", Type: 't', Stored: true, Value: []byte("other value"), Len: 1,
				Tokens: []spec.TokenSpec{{Term: "o", Freq: 1}}}}})
		}
		seg, _, err := drive.Build(b, 1025)
		if err != nil {
			return
		}
		var buf bytes.Buffer
		if _, err := seg.(*zap.SegmentBase).WriteTo(&buf); err == nil {
			otherImage.sb, otherImage.data = seg.(*zap.SegmentBase), buf.Bytes()
		}
	})
	if otherImage.sb == nil {
		return nil
	}
	for round := 0; round < 3; round++ {
		ca, cb := make(chan struct{}), make(chan struct{})
		wa, wb := &gateWriter{mine: ca, theirs: cb}, &gateWriter{mine: cb, theirs: ca}
		var ea, eb error
		var wg sync.WaitGroup
		wg.Add(2)
		go func() { defer wg.Done(); ea = drive.Safe(func() error { _, e := sb.WriteTo(wa); return e }) }()
		go func() { defer wg.Done(); eb = drive.Safe(func() error { _, e := otherImage.sb.WriteTo(wb); return e }) }()
		wg.Wait()
		if ea != nil || eb != nil {
			return violation(prop, "nofault/overlapping-writeto-error", "two overlapping fault-free WriteTo calls: %v / %v", ea, eb)
		}
		if !bytes.Equal(wa.buf.Bytes(), data) || !bytes.Equal(wb.buf.Bytes(), otherImage.data) {
			return violation(prop, "nofault/overlapping-writeto-bytes", "two overlapping fault-free WriteTo calls reported success, but the destinations received %d and %d bytes that are not the two images (%d and %d bytes)", wa.buf.Len(), wb.buf.Len(), len(data), len(otherImage.data))
		}
	}
	return nil
}

// allDroppedMergeFaults merges segs with every document deleted: fault-free once (to learn the
// size), then with the file system cutting the output at a few offsets.
func allDroppedMergeFaults(prop string, c faultCase, segs []segment.Segment, chunkMode uint32) *Violation {
	drops := make([]*roaring.Bitmap, len(segs))
	for i, sg := range segs {
		drops[i] = roaring.New()
		if n := sg.Count(); n > 0 {
			drops[i].AddRange(0, n)
		}
	}
	p0 := drive.NewPath("c17z")
	defer os.Remove(p0)
	if err := drive.Safe(func() error {
		_, _, e := drive.Merge(segs, drops, p0, chunkMode, nil, nil)
		return e
	}); err != nil {
		return violation(prop, "nofault/merge-error", "fault-free Merge with every document deleted failed: %v", err)
	}
	d0, _ := os.ReadFile(p0)
	if v := checkFooter(prop, d0, 0, effMode(chunkMode)); v != nil {
		v.Signature = "nofault/all-dropped-" + v.Signature
		return v
	}
	for _, off := range []int{0, 1, 10, len(d0) - zap.FooterSize, len(d0) - 1} {
		if off < 0 || off >= len(d0) {
			continue
		}
		faultStats.faulted++
		p2 := drive.NewPath("c17zf")
		c.reserve(p2)
		var merr error
		if lerr := faults.WithFileSizeLimit(uint64(off), func() {
			merr = drive.Safe(func() error {
				_, _, e := drive.Merge(segs, drops, p2, chunkMode, nil, nil)
				return e
			})
		}); lerr != nil {
			return nil
		}
		_, serr := os.Stat(p2)
		os.Remove(p2)
		if merr == nil {
			return violation(prop, "merge/fault-swallowed", "Merge with every document deleted returned nil although the file system accepted only %d of %d bytes", off, len(d0))
		}
		if serr == nil {
			return violation(prop, "merge/file-left-behind", "Merge with every document deleted failed (%v) at offset %d of %d but left a file at the path", merr, off, len(d0))
		}
	}
	return nil
}
