package checks

import (
	"bytes"
	"fmt"
	"sort"
	"testing"

	segment "github.com/blevesearch/scorch_segment_api/v2"
	"pgregory.net/rapid"

	"verifharness/drive"
	"verifharness/gen"
	"verifharness/spec"
	"verifharness/stats"
)

// C02 — stored fields, external ids and id lookup round-trip.

type storedCase struct {
	Batch     *spec.BatchSpec `json:"batch"`
	ChunkMode uint32          `json:"chunkMode"`
	Mmap      bool            `json:"mmap"`
	IDLists   [][]spec.B      `json:"idLists"`
}

func genIDLists(t *rapid.T, b *spec.BatchSpec) [][]spec.B {
	docs := b.AllDocs()
	var ids []string
	for i := range docs {
		ids = append(ids, string(docs[i].ID))
	}
	sorted := spec.SortedStrings(ids)
	// hostile ids relative to the key range
	hostile := []string{"", "\x00", "zzzzzz", "\xfe\xfe", "~"}
	if len(sorted) > 0 {
		maxKey := sorted[len(sorted)-1]
		minKey := sorted[0]
		hostile = append(hostile, maxKey, maxKey+"\x00", maxKey+"a", maxKey[:len(maxKey)-1], minKey, minKey+"0")
		if len(minKey) > 0 {
			hostile = append(hostile, minKey[:len(minKey)-1])
		}
	}
	pool := append(append([]string{}, hostile...), ids...)
	if len(pool) > 60 {
		pool = append(pool[:40], pool[len(pool)-20:]...)
	}
	n := rapid.IntRange(1, 4).Draw(t, "nIDLists")
	var out [][]spec.B
	for i := 0; i < n; i++ {
		l := rapid.SliceOfN(rapid.SampledFrom(pool), 0, 8).Draw(t, fmt.Sprintf("idList%d", i))
		bl := make([]spec.B, len(l))
		for j := range l {
			bl[j] = spec.B(l[j])
		}
		out = append(out, bl)
	}
	// always one list mixing everything
	all := make([]spec.B, 0, len(pool))
	for _, p := range pool {
		all = append(all, spec.B(p))
	}
	return append(out, all)
}

func genStoredCase(t *rapid.T) storedCase {
	o := gen.DefaultSchemaOpts()
	o.ForceStored = true
	s := gen.GenSchema(t, o)
	if gen.Chance(t, "moreBig", 10) {
		s.BigValues = true
	}
	b := s.GenBatch(t, "b", gen.BatchOpts{MaxDocs: 30, AllowWide: true, WidePct: 3, AllowEmpty: true, DupIDPct: 12})
	return storedCase{Batch: b, ChunkMode: gen.ChunkMode(t, "cm"), Mmap: rapid.Bool().Draw(t, "mmap"), IDLists: genIDLists(t, b)}
}

// openVariant builds the batch and, if mmap, persists and re-opens it.
func openVariant(prop string, b *spec.BatchSpec, chunkMode uint32, mmap bool) (segment.Segment, func(), *Violation) {
	var seg segment.Segment
	err := drive.Safe(func() error {
		var e error
		seg, _, e = drive.Build(b, chunkMode)
		return e
	})
	if err != nil {
		return nil, nil, violation(prop, "build/error", "build failed: %v", err)
	}
	if !mmap {
		return seg, func() { seg.Close() }, nil
	}
	var path string
	var opened segment.Segment
	err = drive.Safe(func() error {
		var e error
		path, e = drive.Persist(seg, "c")
		seg.Close()
		if e != nil {
			return fmt.Errorf("persist: %w", e)
		}
		opened, e = drive.Open(path)
		if e != nil {
			return fmt.Errorf("open: %w", e)
		}
		return nil
	})
	if err != nil {
		removeFile(path)
		return nil, nil, violation(prop, "persist-open/error", "%v", err)
	}
	return opened, func() { opened.Close(); removeFile(path) }, nil
}

// checkStoredSurface checks the stored-field API beyond what Observe compares.
func checkStoredSurface(prop string, seg segment.Segment, want *spec.Obs, idLists [][]spec.B) *Violation {
	var v *Violation
	err := drive.Safe(func() error {
		// early stop after the j-th callback
		for n := uint64(0); n < want.Count; n++ {
			full := want.Stored[n]
			for j := 1; j <= len(full); j++ {
				if want.Count > 64 && j > 2 && n%97 != 0 {
					break
				}
				calls := 0
				var got []spec.StoredVal
				err := seg.VisitStoredFields(n, func(field string, typ byte, value []byte, pos []uint64) bool {
					calls++
					got = append(got, spec.StoredVal{Field: field, Typ: typ, Val: append([]byte{}, value...), AP: append([]uint64(nil), pos...)})
					return calls < j
				})
				if err != nil {
					return fmt.Errorf("VisitStoredFields(%d) stop after %d: %w", n, j, err)
				}
				if calls != j {
					v = violation(prop, "stored/early-stop-count", "doc %d: visitor asked to stop after callback %d of %d but received %d callbacks", n, j, len(full), calls)
					return nil
				}
				for i := 0; i < j; i++ {
					if got[i].Field != full[i].Field || got[i].Typ != full[i].Typ || !bytes.Equal(got[i].Val, full[i].Val) {
						v = violation(prop, "stored/early-stop-prefix", "doc %d stop after %d: callback %d got field %q, model %q", n, j, i, got[i].Field, full[i].Field)
						return nil
					}
				}
			}
			id, err := seg.DocID(n)
			if err != nil {
				return fmt.Errorf("DocID(%d): %w", n, err)
			}
			if !bytes.Equal(id, full[0].Val) {
				v = violation(prop, "docid/mismatch", "DocID(%d)=%q model %q", n, id, full[0].Val)
				return nil
			}
		}
		// beyond Count
		for _, n := range []uint64{want.Count, want.Count + 1, 1 << 32, 1<<32 + 1} {
			calls := 0
			if err := seg.VisitStoredFields(n, func(string, byte, []byte, []uint64) bool { calls++; return true }); err != nil {
				return fmt.Errorf("VisitStoredFields(%d beyond Count): %w", n, err)
			}
			if calls != 0 {
				v = violation(prop, "stored/beyond-count", "VisitStoredFields(%d) with Count=%d made %d callbacks", n, want.Count, calls)
				return nil
			}
			id, err := seg.DocID(n)
			if err != nil {
				return fmt.Errorf("DocID(%d beyond Count): %w", n, err)
			}
			if id != nil {
				v = violation(prop, "docid/beyond-count", "DocID(%d) with Count=%d returned %q", n, want.Count, id)
				return nil
			}
		}
		// DocNumbers
		byID := map[string][]uint32{}
		for n := range want.Stored {
			id := string(want.Stored[n][0].Val)
			byID[id] = append(byID[id], uint32(n))
		}
		for li, list := range idLists {
			ids := make([]string, len(list))
			wantSet := map[uint32]bool{}
			for i, x := range list {
				ids[i] = string(x)
				for _, n := range byID[string(x)] {
					wantSet[n] = true
				}
			}
			bm, err := seg.DocNumbers(ids)
			if err != nil {
				return fmt.Errorf("DocNumbers(list %d): %w", li, err)
			}
			got := bm.ToArray()
			var wantArr []uint32
			for n := range wantSet {
				wantArr = append(wantArr, n)
			}
			sort.Slice(wantArr, func(i, j int) bool { return wantArr[i] < wantArr[j] })
			if fmt.Sprint(got) != fmt.Sprint(wantArr) {
				v = violation(prop, "docnumbers/mismatch", "DocNumbers(%q) = %v, model %v", ids, got, wantArr)
				return nil
			}
			// the returned bitmap belongs to the caller, who goes on using it
			bm.Add(0xfffffff0)
		}
		// two lookups without any hit, the caller modifying the first result in between
		for round := 0; round < 2; round++ {
			bm, err := seg.DocNumbers([]string{"\x02no-such-id\x02"})
			if err != nil {
				return fmt.Errorf("DocNumbers(absent id): %w", err)
			}
			if !bm.IsEmpty() {
				v = violation(prop, "docnumbers/absent-id", "DocNumbers of an absent id returns %v (lookup %d; the caller had modified bitmaps returned earlier)", bm.ToArray(), round+1)
				return nil
			}
			bm.Add(7)
		}
		return nil
	})
	if err != nil {
		return violation(prop, "stored/error", "%v", err)
	}
	return v
}

func runStoredCase(c storedCase) *Violation {
	const prop = "C02"
	want := spec.Expect(c.Batch)
	seg, closeFn, v := openVariant(prop, c.Batch, c.ChunkMode, c.Mmap)
	if v != nil {
		return v
	}
	defer closeFn()
	got, err := drive.Observe(seg)
	if err != nil {
		return violation(prop, "observe/error", "%v", err)
	}
	if d := spec.Diff(want, got, spec.DiffOpts{SkipIndex: true, SkipDV: true, SkipThes: true}); d != "" {
		return violation(prop, "stored/mismatch", "%s", d)
	}
	// besides the generated lists: only ids that are present, each once, ascending and descending
	// (an id carried by two documents then precedes other present ids)
	var present []spec.B
	seenID := map[string]bool{}
	for n := range want.Stored {
		id := spec.B(want.Stored[n][0].Val)
		if !seenID[string(id)] {
			seenID[string(id)] = true
			present = append(present, id)
		}
	}
	sort.Slice(present, func(i, j int) bool { return present[i] < present[j] })
	presentRev := make([]spec.B, len(present))
	for i := range present {
		presentRev[len(present)-1-i] = present[i]
	}
	if len(present) > 2000 {
		present, presentRev = present[:2000], presentRev[:2000]
	}
	lists := append(append([][]spec.B{}, c.IDLists...), present, presentRev)
	if v := checkStoredSurface(prop, seg, want, lists); v != nil {
		return v
	}
	if c.Mmap && c.Batch.Wide == nil && want.Count > 0 {
		return storedTwinCheck(prop, c)
	}
	return nil
}

// storedTwin is the batch with the last byte of every non-empty stored value flipped: same
// shape, same record lengths, other content.
func storedTwin(b *spec.BatchSpec) *spec.BatchSpec {
	nb := &spec.BatchSpec{}
	for _, d := range b.Docs {
		nd := d
		nd.Fields = nil
		for _, f := range d.Fields {
			nf := f
			if f.Stored && len(f.Value) > 0 {
				nf.Value = append([]byte(nil), f.Value...)
				nf.Value[len(nf.Value)-1] ^= 0x01
			}
			nd.Fields = append(nd.Fields, nf)
		}
		nb.Docs = append(nb.Docs, nd)
	}
	return nb
}

// storedTwinCheck: a reader that closes one file and opens the next one of the same shape (which
// the kernel is free to map where the old one was) must see the new file's stored values, also
// when the last thing it did with the old file was to visit the very same document.
func storedTwinCheck(prop string, c storedCase) *Violation {
	twin := storedTwin(c.Batch)
	wantTwin := spec.Expect(twin)
	a, closeA, v := openVariant(prop, c.Batch, c.ChunkMode, true)
	if v != nil {
		return v
	}
	closedA := false
	defer func() {
		if !closedA {
			closeA()
		}
	}()
	// the twin's file is written before the first one is closed, so that nothing else is mapped in between
	var pathB string
	err := drive.Safe(func() error {
		sb, _, e := drive.Build(twin, c.ChunkMode)
		if e != nil {
			return e
		}
		defer sb.Close()
		pathB, e = drive.Persist(sb, "c02twin")
		return e
	})
	defer removeFile(pathB)
	if err != nil {
		return violation(prop, "twin/build-error", "%v", err)
	}
	var got *spec.Obs
	err = drive.Safe(func() error {
		if e := a.VisitStoredFields(0, func(string, byte, []byte, []uint64) bool { return true }); e != nil {
			return e
		}
		closeA()
		closedA = true
		b, e := drive.Open(pathB)
		if e != nil {
			return e
		}
		defer b.Close()
		got, e = drive.Observe(b)
		return e
	})
	if err != nil {
		return violation(prop, "twin/error", "%v", err)
	}
	if d := spec.Diff(wantTwin, got, spec.DiffOpts{SkipIndex: true, SkipDV: true, SkipThes: true}); d != "" {
		return violation(prop, "twin/stored-mismatch", "a file of the same shape opened after the first one was closed: %s", d)
	}
	return nil
}

var c02 = Check[storedCase]{
	Property: "C02", Stage: "stored",
	Gen: genStoredCase, Run: runStoredCase,
	Classify: func(c storedCase) (bool, []string) {
		o := spec.Expect(c.Batch)
		var cl []string
		repeated := false
		for _, st := range o.Stored {
			seen := map[string]int{}
			for _, s := range st {
				seen[s.Field]++
				if seen[s.Field] == 2 {
					repeated = true
					cl = append(cl, "repeated-stored-field")
				}
				if len(s.Val) > 65536 {
					cl = append(cl, "value>64KiB")
				}
				if len(s.Val) == 0 {
					cl = append(cl, "empty-value")
				}
				if len(s.AP) > 8 {
					cl = append(cl, "long-array-positions")
				}
			}
		}
		ids := map[string]bool{}
		for _, st := range o.Stored {
			if ids[string(st[0].Val)] {
				cl = append(cl, "duplicate-id")
			}
			ids[string(st[0].Val)] = true
		}
		if o.Count == 0 {
			cl = append(cl, "empty-batch")
		}
		if c.Mmap {
			cl = append(cl, "mmap")
		} else {
			cl = append(cl, "in-memory")
		}
		mixed := false
		for _, l := range c.IDLists {
			p, a := false, false
			for _, x := range l {
				if ids[string(x)] {
					p = true
				} else {
					a = true
				}
			}
			if p && a {
				mixed = true
			}
		}
		return repeated || (mixed && o.Count >= 2), dedup(cl)
	},
}

func init() { c02.register() }

func TestC02(t *testing.T) { c02.Rapid(t) }

// Deterministic batch with two heavy stored records between two small ones: one whose meta part
// exceeds 127 bytes next to more than 2 MiB of incompressible data (a 2-byte and a 4-byte length
// in the record header), and one with several thousand stored values next to 20 KiB of data
// (two 3-byte lengths). In memory and re-opened.
func TestC02Fixed(t *testing.T) {
	col := stats.New("C02", "stored")
	defer col.Write()
	noise := func(n int, seed uint32) []byte {
		v := make([]byte, n)
		x := seed*2654435761 + 1
		for i := range v {
			x ^= x << 13
			x ^= x >> 17
			x ^= x << 5
			v[i] = byte(x >> 11)
		}
		return v
	}
	small := func(id string) spec.DocSpec {
		return spec.DocSpec{ID: spec.B(id), Fields: []spec.FieldSpec{{Name: "body", Type: 't', Stored: true, Value: []byte("v" + id), Len: 1, Tokens: []spec.TokenSpec{{Term: spec.B(id), Freq: 1}}}}}
	}
	heavyA := spec.DocSpec{ID: "b"}
	for i := 0; i < 40; i++ {
		heavyA.Fields = append(heavyA.Fields, spec.FieldSpec{Name: "tag", Type: 't', Stored: true, Value: []byte(fmt.Sprintf("tag%02d", i)), AP: []uint64{uint64(i), uint64(i * 3)}})
	}
	heavyA.Fields = append(heavyA.Fields, spec.FieldSpec{Name: "blob", Type: 't', Stored: true, Value: noise(3<<20, 1)})
	heavyB := spec.DocSpec{ID: "c"}
	for i := 0; i < 4200; i++ {
		heavyB.Fields = append(heavyB.Fields, spec.FieldSpec{Name: "tag", Type: 't', Stored: true, Value: []byte{byte('a' + i%26)}, AP: []uint64{uint64(i)}})
	}
	heavyB.Fields = append(heavyB.Fields, spec.FieldSpec{Name: "blob", Type: 't', Stored: true, Value: noise(20<<10, 2)})
	b := &spec.BatchSpec{Docs: []spec.DocSpec{small("a"), heavyA, heavyB, small("d")}}
	for _, mm := range []bool{false, true} {
		c := storedCase{Batch: b, Mmap: mm, IDLists: [][]spec.B{{"a", "c"}, {"d", "b", "zz"}}}
		sc := storedCase{Batch: &spec.BatchSpec{Docs: []spec.DocSpec{small("a"), small("d")}}, Mmap: mm}
		col.CaseHash(stats.HashJSON(fmt.Sprintf("fixed-heavy-records-mmap=%v", mm)), true, []string{"record-header-lengths-of-2+4-and-3+3-bytes", "value>64KiB"}, func() any { return sampleOf(sc) })
		reportBig(t, col, "C02", "stored", c, safeRun(c02, c))
	}
}
