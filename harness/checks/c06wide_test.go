package checks

import (
	"fmt"
	"testing"

	"pgregory.net/rapid"

	"verifharness/gen"
	"verifharness/spec"
)

// C06, targeted stage: merges whose surviving postings cardinalities sit on
// and around multiples of 1024, where the chunk size of modes 1025/1026
// changes and the writer must derive it from exactly the surviving hits.

func genWideMergeCase(t *rapid.T) planCase {
	n := rapid.SampledFrom([]int{1030, 1100, 2050, 2100, 1024, 2048}).Draw(t, "wideN")
	w := &spec.WideSpec{N: n, Period: rapid.SampledFrom([]int{1, 2, 0}).Draw(t, "period"), Every: rapid.SampledFrom([]int{0, 1, 2}).Draw(t, "every"),
		Locs: rapid.Bool().Draw(t, "locs"), DV: rapid.Bool().Draw(t, "dv")}
	wide := spec.MergePlan{Leaf: &spec.BatchSpec{Wide: w}, Mmap: rapid.Bool().Draw(t, "wideMmap")}
	zfEmpty := rapid.Bool().Draw(t, "zfEmpty")
	// the later field's only term: the empty term, or a term that may equal the LAST term of the
	// wide field before it
	zfTerm := ""
	// the small documents use either the wide batch's own dense terms (so the field's LAST
	// term is a dense one) or terms sorting after them
	termSet := rapid.SampledFrom([][]string{{"other", "zz", "all", "p0"}, {"all", "p0"}, {"all"}}).Draw(t, "smallTerms")
	if gen.Chance(t, "zfSharesLastTerm", 45) {
		// the greatest term of the wide field
		zfTerm = "all"
		if w.Every > 0 {
			zfTerm = "e"
		}
		if w.Period > 0 {
			zfTerm = fmt.Sprintf("p%d", w.Period-1)
		}
		for _, x := range termSet {
			if x > zfTerm {
				zfTerm = x
			}
		}
	}
	// small neighbours: same field, but (mostly) without the wide terms
	small := func(label string) spec.MergePlan {
		nd := rapid.IntRange(1, 6).Draw(t, label+"n")
		b := &spec.BatchSpec{}
		for i := 0; i < nd; i++ {
			f := spec.FieldSpec{Name: spec.WideFieldName, Type: 't', DV: w.DV, Len: 1}
			term := rapid.SampledFrom(termSet).Draw(t, fmt.Sprintf("%sterm%d", label, i))
			tok := spec.TokenSpec{Term: spec.B(term), Freq: 1}
			if w.Locs {
				tok.Locs = []spec.LocSpec{{Pos: 1, Start: 0, End: 2}}
			}
			f.Tokens = []spec.TokenSpec{tok}
			doc := spec.DocSpec{ID: spec.B(fmt.Sprintf("%s%d", label, i)), Fields: []spec.FieldSpec{f}}
			if zfEmpty && rapid.Bool().Draw(t, fmt.Sprintf("%szf%d", label, i)) {
				// a later field whose FIRST term is the empty term, with few hits, right
				// after a field whose last term may have >= 1024 hits
				zt := spec.TokenSpec{Term: spec.B(zfTerm), Freq: 1 + i%3}
				for j := 0; j < zt.Freq; j++ {
					zt.Locs = append(zt.Locs, spec.LocSpec{Pos: j + 1, Start: j, End: j + 1})
				}
				doc.Fields = append(doc.Fields, spec.FieldSpec{Name: "zf", Type: 't', Len: zt.Freq, Tokens: []spec.TokenSpec{zt}})
			}
			b.Docs = append(b.Docs, doc)
		}
		return spec.MergePlan{Leaf: b, Mmap: rapid.Bool().Draw(t, label+"mmap")}
	}
	p := &spec.MergePlan{ChunkMode: rapid.SampledFrom([]uint32{0, 1025, 1026, 1024}).Draw(t, "cm")}
	order := rapid.SampledFrom([]string{"sw", "sws", "ws", "w", "ssw"}).Draw(t, "order")
	si := 0
	for _, c := range order {
		if c == 'w' {
			p.Children = append(p.Children, wide)
			// survivors of the dense term land on 1024*k + delta
			k := rapid.IntRange(1, n/1024).Draw(t, "k")
			delta := rapid.IntRange(-2, 2).Draw(t, "delta")
			target := 1024*k + delta
			if target > n {
				target = n
			}
			nDrop := n - target
			d := spec.DropSpec{}
			switch rapid.SampledFrom([]string{"prefix", "suffix", "spread"}).Draw(t, "dropShape") {
			case "prefix":
				for i := 0; i < nDrop; i++ {
					d.Docs = append(d.Docs, uint32(i))
				}
			case "suffix":
				for i := 0; i < nDrop; i++ {
					d.Docs = append(d.Docs, uint32(n-1-i))
				}
			default:
				step := 1
				if nDrop > 0 {
					step = n / nDrop
				}
				for i := 0; i < nDrop; i++ {
					d.Docs = append(d.Docs, uint32(i*step))
				}
			}
			if nDrop == 0 && rapid.Bool().Draw(t, "nilDrop") {
				d.Nil = true
			}
			p.Drops = append(p.Drops, d)
		} else {
			si++
			c := small(fmt.Sprintf("s%d", si))
			p.Children = append(p.Children, c)
			p.Drops = append(p.Drops, gen.GenDrop(t, fmt.Sprintf("s%ddrop", si), c.Leaf.NumDocs()))
		}
	}
	if rapid.Bool().Draw(t, "remerge") {
		// merge the result once more (byte-copied details are chunked again)
		p = &spec.MergePlan{ChunkMode: p.ChunkMode, Children: []spec.MergePlan{*p}, Drops: []spec.DropSpec{gen.GenDrop(t, "redrop", 3)}}
	}
	return planCase{Plan: p}
}

var c06wide = Check[planCase]{
	Property: "C06", Stage: "merge-wide",
	Gen: genWideMergeCase,
	Run: func(c planCase) *Violation {
		return runPlanCase(c, planCheckOpts{prop: "C06", index: true, dv: true})
	},
	Classify: func(c planCase) (bool, []string) {
		cl, _, _ := classifyPlan(c.Plan)
		o := spec.ExpectResolved(spec.Resolve(c.Plan))
		nt := false
		for _, hits := range o.Index[spec.WideFieldName] {
			n := len(hits)
			if n >= 1022 {
				nt = true
			}
			if n%1024 == 0 && n > 0 {
				cl = append(cl, "cardinality=1024k")
			} else if n%1024 <= 2 && n > 1024 || n%1024 >= 1022 {
				cl = append(cl, "cardinality=1024k±2")
			}
		}
		return nt, dedup(cl)
	},
}

func init() { c06wide.register() }

func TestC06Wide(t *testing.T) { c06wide.Rapid(t) }
