package checks

import (
	"bufio"
	"encoding/json"
	"errors"
	"fmt"
	"os"
	"path/filepath"
	"reflect"
	"runtime"
	"runtime/debug"
	"strings"
	"sync"
	"sync/atomic"
	"testing"

	"github.com/RoaringBitmap/roaring/v2"
	segment "github.com/blevesearch/scorch_segment_api/v2"
	"pgregory.net/rapid"

	"verifharness/drive"
	"verifharness/gen"
	"verifharness/spec"
	"verifharness/stats"
)

// C20 — an opened segment stays readable until its last reference drops, then frees once.

func refBatch() *spec.BatchSpec {
	mk := func(id, val string, terms ...string) spec.DocSpec {
		f := spec.FieldSpec{Name: "f", Type: 't', Stored: true, DV: true, Value: []byte(val)}
		for i, t := range terms {
			f.Tokens = append(f.Tokens, spec.TokenSpec{Term: spec.B(t), Freq: 1 + i, Locs: []spec.LocSpec{{Pos: i + 1, Start: i, End: i + 2}}})
			f.Len += 1 + i
		}
		return spec.DocSpec{ID: spec.B(id), Fields: []spec.FieldSpec{f}}
	}
	syn := spec.DocSpec{ID: "s1", IDLast: true, Fields: []spec.FieldSpec{{Name: "syn", Kind: spec.KindSyn, Syn: []spec.SynDef{{Term: "big", Syns: []spec.B{"large", "huge"}}, {Term: "tiny", Syns: []spec.B{"small"}}, {Term: "wee", Syns: []spec.B{"small", "little"}}, {Term: "zippy", Syns: []spec.B{"quick"}}}}}}
	syn2 := spec.DocSpec{ID: "s2", IDLast: true, Fields: []spec.FieldSpec{{Name: "coll2", Kind: spec.KindSyn, Syn: []spec.SynDef{{Term: "fast", Syns: []spec.B{"quick"}}}}}}
	b := &spec.BatchSpec{Docs: []spec.DocSpec{mk("r1", "v1", "a", "b"), mk("r2", "v2", "b", "c"), mk("r3", "", "a"), syn, syn2}}
	if vectorsBuild {
		b.Docs[0].Fields = append(b.Docs[0].Fields, spec.FieldSpec{Name: "vec", Kind: spec.KindVec, Vec: &spec.VecSpec{Dim: 2, Data: []float32{1, 2}, Metric: "l2_norm", Opt: "recall"}})
		b.Docs[2].Fields = append(b.Docs[2].Fields, spec.FieldSpec{Name: "vec", Kind: spec.KindVec, Vec: &spec.VecSpec{Dim: 2, Data: []float32{3, 1, 0, 0}, Metric: "l2_norm", Opt: "recall"}})
	}
	return b
}

// mappingCount counts the lines of /proc/self/maps naming path; fdCount the descriptors open on it.
func mappingCount(path string) int {
	f, err := os.Open("/proc/self/maps")
	if err != nil {
		return -1
	}
	defer f.Close()
	n := 0
	sc := bufio.NewScanner(f)
	for sc.Scan() {
		if strings.HasSuffix(sc.Text(), path) {
			n++
		}
	}
	return n
}

func fdCount(path string) int {
	ents, err := os.ReadDir("/proc/self/fd")
	if err != nil {
		return -1
	}
	n := 0
	for _, e := range ents {
		if t, err := os.Readlink(filepath.Join("/proc/self/fd", e.Name())); err == nil && t == path {
			n++
		}
	}
	return n
}

// lightRead touches the mapping through several API paths; "" if it matches the model.
func lightRead(seg segment.Segment, want *spec.Obs) (msg string) {
	defer debug.SetPanicOnFault(debug.SetPanicOnFault(true))
	err := drive.Safe(func() error {
		if seg.Count() != want.Count {
			msg = fmt.Sprintf("Count %d, model %d", seg.Count(), want.Count)
			return nil
		}
		d, err := seg.Dictionary("f")
		if err != nil {
			return err
		}
		pl, err := d.PostingsList([]byte("b"), nil, nil)
		if err != nil {
			return err
		}
		hits, err := drive.Hits(pl)
		if err != nil {
			return err
		}
		if dd := spec.DiffHits(want.Index["f"]["b"], hits); dd != "" {
			msg = "postings of (f,b): " + dd
			return nil
		}
		st, err := drive.VisitStored(seg, 1)
		if err != nil {
			return err
		}
		if !storedEqual(want.Stored[1], normStored(st)) {
			msg = fmt.Sprintf("stored doc 1: %v, model %v", st, want.Stored[1])
			return nil
		}
		// lazily cached structures: both thesauri and (vectors tag) the vector index
		for _, name := range []string{"syn", "coll2"} {
			th, _, err := drive.ObserveThesaurus(seg, name, nil)
			if err != nil {
				return err
			}
			for t := range th {
				sortPairs(th[t])
			}
			if !reflect.DeepEqual(th, want.Thes[name]) {
				msg = fmt.Sprintf("thesaurus %q: %v, model %v", name, th, want.Thes[name])
				return nil
			}
		}
		if v := vectorSegmentCheck("C20", seg, want, "read"); v != nil {
			msg = v.Message
		}
		return nil
	})
	if err != nil {
		return err.Error()
	}
	return msg
}

func normStored(st []spec.StoredVal) []spec.StoredVal {
	for k := range st {
		if len(st[k].AP) == 0 {
			st[k].AP = nil
		}
	}
	return st
}

func fullRead(seg segment.Segment, want *spec.Obs) string {
	defer debug.SetPanicOnFault(debug.SetPanicOnFault(true))
	got, err := drive.Observe(seg)
	if err != nil {
		return err.Error()
	}
	return spec.Diff(want, got, spec.DiffOpts{})
}

type refCase struct {
	// A = AddRef, D = DecRef, C = Close; and, leaving the count unchanged, uses of the segment
	// as the input of a public Merge: m = a merge that succeeds, M = a merge whose close channel
	// is closed before the call, F = a merge whose destination cannot be created, K = merges
	// cancelled at every one of their progress reports
	Ops string `json:"ops"`
	// Empty: the file holds a segment without documents (a persisted empty batch)
	Empty bool `json:"empty,omitempty"`
}

// runRefSequence executes one balanced sequence on a freshly opened segment.
func runRefSequence(c refCase, full bool) *Violation {
	const prop = "C20"
	b := refBatch()
	if c.Empty {
		b = &spec.BatchSpec{}
	}
	want := spec.Expect(b)
	seg, _, err := drive.Build(b, 0)
	if err != nil {
		return violation(prop, "setup/build", "%v", err)
	}
	path, err := drive.Persist(seg, "c20")
	seg.Close()
	if err != nil {
		return violation(prop, "setup/persist", "%v", err)
	}
	defer os.Remove(path)
	o, err := drive.Open(path)
	if err != nil {
		return violation(prop, "setup/open", "%v", err)
	}
	// a second, in-memory copy serves as the other input of the cancelled merges of 'K'
	o2, _, err := drive.Build(b, 0)
	if err != nil {
		return violation(prop, "setup/build", "%v", err)
	}
	defer o2.Close()
	if m, f := mappingCount(path), fdCount(path); m != 1 || f != 1 {
		return violation(prop, "refs/open-state", "after Open the file is mapped %d times and has %d descriptors (want 1 and 1)", m, f)
	}
	count := 1
	for i, op := range c.Ops {
		read := lightRead
		if full || i == 0 || i == len(c.Ops)-1 || c.Empty {
			read = fullRead
		}
		if m := read(o, want); m != "" {
			return violation(prop, "refs/read-while-held", "sequence %q: before operation %d (model count %d) a read failed: %s", c.Ops, i, count, m)
		}
		var rerr error
		perr := drive.Safe(func() error {
			switch op {
			case 'A':
				o.AddRef()
				count++
			case 'D':
				rerr = o.DecRef()
				count--
			case 'C':
				rerr = o.Close()
				count--
			case 'K':
				// merges of the held segment cancelled at every point of their progress (the close
				// channel is closed inside the k-th progress report, for every k): the held segment
				// must stay fully readable - including its thesauri - after each of them
				counter := &closingReporter{ch: make(chan struct{})}
				dir := drive.NewDir("c20k")
				defer os.RemoveAll(dir)
				if _, _, merr := drive.Plugin.Merge([]segment.Segment{o, o2}, []*roaring.Bitmap{nil, nil}, filepath.Join(dir, "m.zap"), counter.ch, counter); merr != nil {
					return fmt.Errorf("uncancelled merge: %v", merr)
				}
				for k := 1; k <= counter.calls; k++ {
					r := &closingReporter{k: k, ch: make(chan struct{})}
					dest := filepath.Join(dir, fmt.Sprintf("k%d.zap", k))
					_, _, merr := drive.Plugin.Merge([]segment.Segment{o, o2}, []*roaring.Bitmap{nil, nil}, dest, r.ch, r)
					os.Remove(dest)
					if merr != nil && !errors.Is(merr, segment.ErrClosed) {
						return fmt.Errorf("merge cancelled at report %d of %d returned %v", k, counter.calls, merr)
					}
					if m := lightRead(o, want); m != "" {
						return fmt.Errorf("after a merge cancelled at report %d of %d the held segment no longer reads correctly: %s", k, counter.calls, m)
					}
				}
			case 'm', 'M', 'F':
				// a merge borrows its inputs: whatever its outcome, the holder's references
				// are neither consumed nor multiplied
				dir := drive.NewDir("c20m")
				defer os.RemoveAll(dir)
				dest := filepath.Join(dir, "merged.zap")
				var ch chan struct{}
				if op == 'M' {
					ch = make(chan struct{})
					close(ch)
				}
				if op == 'F' {
					dest = filepath.Join(dir, "no-such-dir", "merged.zap")
				}
				_, _, merr := drive.Plugin.Merge([]segment.Segment{o}, []*roaring.Bitmap{nil}, dest, ch, nil)
				if (merr == nil) != (op == 'm') {
					return fmt.Errorf("merge of kind %c returned %v", op, merr)
				}
			}
			return nil
		})
		if perr != nil {
			return violation(prop, "refs/panic", "sequence %q: operation %d (%c) panicked or misbehaved: %v", c.Ops, i, op, perr)
		}
		if rerr != nil {
			return violation(prop, "refs/release-error", "sequence %q: operation %d (%c) returned %v", c.Ops, i, op, rerr)
		}
		m, f := mappingCount(path), fdCount(path)
		if count > 0 && (m != 1 || f != 1) {
			return violation(prop, "refs/released-early", "sequence %q: after operation %d (%c) the model count is %d but the file is mapped %d times with %d descriptors", c.Ops, i, op, count, m, f)
		}
		if count == 0 && (m != 0 || f != 0) {
			return violation(prop, "refs/not-released", "sequence %q: after the final operation the file is still mapped %d times with %d descriptors", c.Ops, m, f)
		}
	}
	if count != 0 {
		return violation(prop, "case/unbalanced", "sequence %q is not balanced", c.Ops)
	}
	return nil
}

// balancedSequences enumerates every sequence over {A,D,C} of length <= maxLen whose
// count stays positive until the last operation, which brings it to zero.
func balancedSequences(maxLen int, visit func(string)) {
	var rec func(prefix []byte, count int)
	rec = func(prefix []byte, count int) {
		if count == 0 {
			visit(string(prefix))
			return
		}
		if len(prefix) >= maxLen {
			return
		}
		// can we still reach zero? need count more ops
		if len(prefix)+count > maxLen {
			return
		}
		rec(append(prefix, 'A'), count+1)
		rec(append(prefix, 'D'), count-1)
		rec(append(prefix, 'C'), count-1)
	}
	rec(nil, 1)
}

func TestC20Enum(t *testing.T) {
	const prop = "C20"
	col := stats.New(prop, "enum")
	defer col.Write()
	maxLen := 9
	if os.Getenv("VERIF_TIER") == "thorough" {
		maxLen = 13
	}
	maxLen = envInt("VERIF_C20_MAXLEN", maxLen)
	shard, nshards := envInt("VERIF_SHARD", 0), envInt("VERIF_NSHARDS", 1)
	i := 0
	var fail *Violation
	var failSeq string
	balancedSequences(maxLen, func(s string) {
		i++
		if fail != nil || i%nshards != shard {
			return
		}
		nt := strings.Contains(s, "A") && strings.Contains(s, "D") && strings.Contains(s, "C")
		col.CaseHash(stats.HashJSON(s), nt, []string{fmt.Sprintf("len=%d", len(s))}, func() any { return s })
		if v := runRefSequence(refCase{Ops: s}, len(s) <= 5); v != nil {
			fail, failSeq = v, s
		}
	})
	// the held segment also serves as the input of merges that succeed, are cancelled or fail
	for _, s := range []string{"MC", "FC", "mC", "MD", "AMDFC", "MAFCmD", "AAMDFDmC", "KC", "AKDmC"} {
		if fail != nil {
			break
		}
		col.CaseHash(stats.HashJSON(s), true, []string{"merge-of-the-held-segment"}, func() any { return s })
		if v := runRefSequence(refCase{Ops: s}, true); v != nil {
			fail, failSeq = v, s
		}
	}
	// the same for a file without documents
	failEmpty := false
	for _, s := range []string{"C", "D", "ADC", "AADDC", "ACD", "AmDC"} {
		if fail != nil {
			break
		}
		col.CaseHash(stats.HashJSON("empty:"+s), true, []string{"zero-document-file"}, func() any { return "empty file: " + s })
		if v := runRefSequence(refCase{Ops: s, Empty: true}, true); v != nil {
			fail, failSeq, failEmpty = v, s, true
		}
	}
	if fail != nil {
		col.Freeze()
		path := writeReplay(prop, "enum", refCase{Ops: failSeq, Empty: failEmpty}, fail)
		fmt.Printf("VIOLATION-DETAIL property=%s stage=enum signature=%s replay=%s\n%s\n", prop, fail.Signature, path, fail.Message)
		t.FailNow()
	}
	col.SetExhaustive(true)
	col.SetExtra("bound", fmt.Sprintf("every balanced AddRef/DecRef/Close sequence of length <= %d (%d sequences over all shards)", maxLen, i))
}

func init() {
	registry["C20/enum"] = func(raw json.RawMessage) *Violation {
		var c refCase
		if err := json.Unmarshal(raw, &c); err != nil {
			return violation("C20", "replay/bad-case-file", "%v", err)
		}
		return runRefSequence(c, true)
	}
}

// ---- random longer sequences ------------------------------------------------

var c20rand = Check[refCase]{
	Property: "C20", Stage: "random",
	Gen: func(t *rapid.T) refCase {
		adds := rapid.IntRange(0, 28).Draw(t, "adds")
		count, used := 1, 0
		var ops []byte
		for i := 0; used < adds && i < 200; i++ {
			if gen.Chance(t, fmt.Sprintf("merge%d", i), 15) {
				ops = append(ops, rapid.SampledFrom([]byte{'M', 'F', 'm'}).Draw(t, fmt.Sprintf("mk%d", i)))
			}
			if count == 1 || rapid.Bool().Draw(t, fmt.Sprintf("up%d", i)) {
				ops = append(ops, 'A')
				count++
				used++
			} else {
				ops = append(ops, rapid.SampledFrom([]byte{'D', 'C'}).Draw(t, fmt.Sprintf("dn%d", i)))
				count--
			}
		}
		for i := 0; count > 0; i++ {
			ops = append(ops, rapid.SampledFrom([]byte{'D', 'C'}).Draw(t, fmt.Sprintf("fin%d", i)))
			count--
		}
		return refCase{Ops: string(ops)}
	},
	Run: func(c refCase) *Violation { return runRefSequence(c, false) },
	Classify: func(c refCase) (bool, []string) {
		s := c.Ops
		cl := []string{fmt.Sprintf("len>=%d", len(s)/10*10)}
		if strings.ContainsAny(s, "MF") {
			cl = append(cl, "failed-or-cancelled-merge-of-the-held-segment")
		}
		if strings.Contains(s, "m") {
			cl = append(cl, "successful-merge-of-the-held-segment")
		}
		return strings.Contains(s, "A") && strings.Contains(s, "D") && strings.Contains(s, "C"), cl
	},
}

func TestC20Random(t *testing.T) { c20rand.Rapid(t) }

// ---- concurrent holders -------------------------------------------------------

type holdersCase struct {
	Holders [][]byte `json:"holders"` // per holder: script over r (read) a (extra AddRef) d (DecRef of an extra ref)
	Closer  int      `json:"closer"`  // number of reads the opener does before its Close
}

func runHoldersCase(c holdersCase) *Violation {
	const prop = "C20"
	b := refBatch()
	want := spec.Expect(b)
	seg, _, err := drive.Build(b, 0)
	if err != nil {
		return violation(prop, "setup/build", "%v", err)
	}
	path, err := drive.Persist(seg, "c20h")
	seg.Close()
	if err != nil {
		return violation(prop, "setup/persist", "%v", err)
	}
	defer os.Remove(path)
	o, err := drive.Open(path)
	if err != nil {
		return violation(prop, "setup/open", "%v", err)
	}
	// the opener takes one reference per holder before handing the segment out
	for range c.Holders {
		o.AddRef()
	}
	res := make([]*Violation, len(c.Holders)+1)
	var wg sync.WaitGroup
	start := make(chan struct{})
	for h := range c.Holders {
		wg.Add(1)
		go func(h int) {
			defer wg.Done()
			<-start
			extra := 0
			for i, op := range c.Holders[h] {
				switch op {
				case 'r':
					if m := lightRead(o, want); m != "" {
						res[h] = violation(prop, "holders/read-while-held", "holder %d step %d: read failed while holding a reference: %s", h, i, m)
						return
					}
				case 'a':
					o.AddRef()
					extra++
				case 'd':
					if extra > 0 {
						if err := o.DecRef(); err != nil {
							res[h] = violation(prop, "holders/release-error", "holder %d step %d: DecRef returned %v", h, i, err)
							return
						}
						extra--
					}
				}
			}
			for ; extra > 0; extra-- {
				if err := o.DecRef(); err != nil {
					res[h] = violation(prop, "holders/release-error", "holder %d: DecRef returned %v", h, err)
					return
				}
			}
			if m := lightRead(o, want); m != "" {
				res[h] = violation(prop, "holders/read-while-held", "holder %d: last read before its DecRef failed: %s", h, m)
				return
			}
			if err := o.DecRef(); err != nil {
				res[h] = violation(prop, "holders/release-error", "holder %d: final DecRef returned %v", h, err)
			}
		}(h)
	}
	wg.Add(1)
	go func() {
		defer wg.Done()
		<-start
		for i := 0; i < c.Closer; i++ {
			if m := lightRead(o, want); m != "" {
				res[len(c.Holders)] = violation(prop, "holders/read-while-held", "opener read %d failed: %s", i, m)
				return
			}
		}
		if err := o.Close(); err != nil {
			res[len(c.Holders)] = violation(prop, "holders/release-error", "opener Close returned %v", err)
		}
	}()
	close(start)
	wg.Wait()
	for _, v := range res {
		if v != nil {
			return v
		}
	}
	if m, f := mappingCount(path), fdCount(path); m != 0 || f != 0 {
		return violation(prop, "holders/not-released", "after every holder released its reference the file is still mapped %d times with %d descriptors", m, f)
	}
	return nil
}

var c20holders = Check[holdersCase]{
	Property: "C20", Stage: "holders",
	Gen: func(t *rapid.T) holdersCase {
		g := rapid.SampledFrom([]int{3, 1, 2, 6, 12}).Draw(t, "holders")
		c := holdersCase{Closer: rapid.IntRange(0, 6).Draw(t, "closerReads")}
		for i := 0; i < g; i++ {
			c.Holders = append(c.Holders, rapid.SliceOfN(rapid.SampledFrom([]byte{'r', 'a', 'd', 'r'}), 0, 10).Draw(t, fmt.Sprintf("h%d", i)))
		}
		return c
	},
	Run: func(c holdersCase) *Violation {
		pendingCase("C20", "holders", c)
		return runHoldersCase(c)
	},
	Classify: func(c holdersCase) (bool, []string) {
		return len(c.Holders) >= 2, []string{fmt.Sprintf("holders=%d", len(c.Holders))}
	},
}

func TestC20Holders(t *testing.T) { c20holders.Rapid(t) }

// ---- in-memory segment ----------------------------------------------------------

func TestC20InMemory(t *testing.T) {
	const prop = "C20"
	col := stats.New(prop, "in-memory")
	defer col.Write()
	fakeReset()
	base := fakeLive()
	for i := 0; i < 20; i++ {
		b := refBatch()
		want := spec.Expect(b)
		seg, _, err := drive.Build(b, 0)
		if err != nil {
			t.Fatal(err)
		}
		col.CaseHash(uint64(i), true, []string{"in-memory-close"}, func() any { return "build; read; AddRef; DecRef; Close" })
		var v *Violation
		if m := fullRead(seg, want); m != "" {
			v = violation(prop, "inmem/read", "%s", m)
		}
		if v == nil {
			if perr := drive.Safe(func() error {
				seg.AddRef()
				if err := seg.DecRef(); err != nil {
					return fmt.Errorf("DecRef: %w", err)
				}
				return seg.Close()
			}); perr != nil {
				v = violation(prop, "inmem/close", "closing an in-memory segment: %v", perr)
			}
		}
		if v == nil && !waitLive(base) {
			v = violation(prop, "inmem/cache-leak", "after Close %d native vector indexes are still alive", fakeLive()-base)
		}
		if v != nil {
			col.Freeze()
			path := writeReplay(prop, "in-memory", map[string]int{"iteration": i}, v)
			fmt.Printf("VIOLATION-DETAIL property=%s stage=in-memory signature=%s replay=%s\n%s\n", prop, v.Signature, path, v.Message)
			t.FailNow()
		}
	}
	// a large in-memory segment is closed (once: a second Close of an in-memory segment is outside
	// the input domain - with vector support compiled in it panics on the unchanged tree) and then
	// smaller segments are built: closing must not hand the closed segment's memory to anything
	// that is still alive - every later segment keeps reading as its own batch dictates
	col.CaseHash(uint64(1000), true, []string{"in-memory-close-then-build"}, func() any {
		return "build 3000 docs; AddRef; DecRef; Close; build small A; build small B; read A, B, A"
	})
	v := func() *Violation {
		var segs []segment.Segment
		defer func() {
			for _, s := range segs {
				s.Close()
			}
		}()
		big, _, err := drive.Build(&spec.BatchSpec{Wide: &spec.WideSpec{N: 3000, Period: 3, Stored: true}}, 0)
		if err != nil {
			return violation(prop, "inmem/build", "%v", err)
		}
		if perr := drive.Safe(func() error {
			big.AddRef()
			if err := big.DecRef(); err != nil {
				return err
			}
			return big.Close()
		}); perr != nil {
			return violation(prop, "inmem/close", "closing an in-memory segment: %v", perr)
		}
		ba := refBatch()
		bb := &spec.BatchSpec{Docs: []spec.DocSpec{{ID: "other", Fields: []spec.FieldSpec{{Name: "g", Type: 't', Stored: true, DV: true, Value: []byte("zzz"), Len: 2,
			Tokens: []spec.TokenSpec{{Term: "q", Freq: 2, Locs: []spec.LocSpec{{Pos: 1, Start: 0, End: 1}, {Pos: 2, Start: 2, End: 3}}}}}}}}}
		wa, wb := spec.Expect(ba), spec.Expect(bb)
		sa, _, err := drive.Build(ba, 0)
		if err != nil {
			return violation(prop, "inmem/build", "%v", err)
		}
		segs = append(segs, sa)
		if m := fullRead(sa, wa); m != "" {
			return violation(prop, "inmem/read-after-close-of-another", "first segment built after the close: %s", m)
		}
		sb, _, err := drive.Build(bb, 0)
		if err != nil {
			return violation(prop, "inmem/build", "%v", err)
		}
		segs = append(segs, sb)
		if m := fullRead(sb, wb); m != "" {
			return violation(prop, "inmem/read-after-close-of-another", "second segment built after the close: %s", m)
		}
		if m := fullRead(sa, wa); m != "" {
			return violation(prop, "inmem/read-after-close-of-another", "first segment built after the close, read again after the second build: %s", m)
		}
		return nil
	}()
	if v != nil {
		col.Freeze()
		path := writeReplay(prop, "in-memory", map[string]int{"iteration": 1000}, v)
		fmt.Printf("VIOLATION-DETAIL property=%s stage=in-memory signature=%s replay=%s\n%s\n", prop, v.Signature, path, v.Message)
		t.FailNow()
	}
}

func init() {
	c20rand.register()
	c20holders.register()
	registry["C20/in-memory"] = func(json.RawMessage) *Violation { return nil }
}

// ---- simultaneous last releases ------------------------------------------------

// TestC20Burst lets 2..4 holders drop the last references at the same instant
// (spinning on a flag), many times: the release must happen exactly once and
// report no error whichever holder is last.
func TestC20Burst(t *testing.T) {
	const prop = "C20"
	col := stats.New(prop, "burst")
	defer col.Write()
	if runtime.GOMAXPROCS(0) < 2 {
		t.Skip("needs >= 2 procs")
	}
	trials := 1500
	if os.Getenv("VERIF_TIER") == "thorough" {
		trials = 20000
	}
	b := refBatch()
	seg, _, err := drive.Build(b, 0)
	if err != nil {
		t.Fatal(err)
	}
	path, err := drive.Persist(seg, "c20b")
	seg.Close()
	if err != nil {
		t.Fatal(err)
	}
	defer os.Remove(path)
	for trial := 0; trial < trials; trial++ {
		holders := 2 + trial%3
		o, err := drive.Open(path)
		if err != nil {
			t.Fatal(err)
		}
		for i := 1; i < holders; i++ {
			o.AddRef()
		}
		var flag, ready int32
		errs := make([]error, holders)
		var wg sync.WaitGroup
		for h := 0; h < holders; h++ {
			wg.Add(1)
			go func(h int) {
				defer wg.Done()
				atomic.AddInt32(&ready, 1)
				for atomic.LoadInt32(&flag) == 0 {
				}
				errs[h] = drive.Safe(func() error {
					if (h+trial)%2 == 0 {
						return o.DecRef()
					}
					return o.Close()
				})
			}(h)
		}
		for atomic.LoadInt32(&ready) < int32(holders) {
			runtime.Gosched()
		}
		atomic.StoreInt32(&flag, 1)
		wg.Wait()
		col.CaseHash(uint64(trial%64), true, []string{fmt.Sprintf("holders=%d", holders)}, func() any {
			return fmt.Sprintf("%d holders drop their references simultaneously (alternating DecRef/Close)", holders)
		})
		var v *Violation
		for h, e := range errs {
			if e != nil {
				v = violation(prop, "burst/release-error", "trial %d: %d holders dropped the last references at the same time; holder %d got: %v", trial, holders, h, e)
			}
		}
		if v == nil {
			if m, f := mappingCount(path), fdCount(path); m != 0 || f != 0 {
				v = violation(prop, "burst/not-released", "trial %d: after all %d holders released, the file is mapped %d times with %d descriptors", trial, holders, m, f)
			}
		}
		if v != nil {
			col.Freeze()
			p := writeReplay(prop, "burst", map[string]int{"holders": holders}, v)
			fmt.Printf("VIOLATION-DETAIL property=%s stage=burst signature=%s replay=%s\n%s\n", prop, v.Signature, p, v.Message)
			t.FailNow()
		}
	}
}

func init() {
	registry["C20/burst"] = func(json.RawMessage) *Violation { return nil } // schedule-dependent: the stage itself is the replay
}
