//go:build vectors

package checks

import (
	"fmt"
	"testing"

	"pgregory.net/rapid"

	"verifharness/drive"
	"verifharness/gen"
	"verifharness/spec"
)

// C15 — merged vector indexes hold exactly the survivors' vectors, renumbered.

func genVecPlanCase(t *rapid.T) planCase {
	so := gen.DefaultSchemaOpts()
	so.Vectors = 2
	so.MaxFields = 2
	s := gen.GenSchema(t, so)
	po := gen.PlanOpts{MaxDepth: 3, MaxChildren: 3, Batch: gen.BatchOpts{MaxDocs: 8, AllowEmpty: true}}
	p := s.GenPlan(t, "p", po)
	if gen.Chance(t, "clustered", 5) {
		// make the first leaf large so the merged total crosses 1000 vectors
		var first *spec.MergePlan
		walkPlan(p, func(n *spec.MergePlan) {
			if first == nil && n.IsLeaf() {
				first = n
			}
		})
		vo := s.Vecs[0]
		first.Leaf.VecWide = &spec.VecWideSpec{N: rapid.SampledFrom([]int{995, 1010, 1200}).Draw(t, "vwN"), Field: vo.Name, Dim: vo.Dim, Metric: vo.Metric, Opt: vo.Opt, Seed: uint32(rapid.IntRange(0, 500).Draw(t, "vwSeed"))}
		// re-derive drops for the enlarged leaf: keep the generated ones (they only name small doc numbers)
	}
	return planCase{Plan: p}
}

func runVecPlanCase(c planCase) *Violation {
	const prop = "C15"
	fakeReset()
	var res *drive.PlanResult
	err := drive.Safe(func() error {
		var e error
		res, e = drive.RunPlan(c.Plan)
		return e
	})
	if err != nil {
		return violation(prop, "merge/error", "executing the plan failed: %v", err)
	}
	defer res.Close()
	for ni, node := range res.Nodes {
		r := spec.Resolve(node.Plan)
		want := spec.ExpectResolved(r)
		tag := fmt.Sprintf("merge output %d/%d (depth %d)", ni+1, len(res.Nodes), node.Plan.Depth())
		if node.Seg.Count() != want.Count {
			return violation(prop, "merge/count", "%s: Count %d, model %d", tag, node.Seg.Count(), want.Count)
		}
		if v := vectorSegmentCheck(prop, node.Seg, want, tag); v != nil {
			return v
		}
	}
	if m := faissMisuse(); m != "" {
		return violation(prop, "vec/engine-misuse", "%s", m)
	}
	return nil
}

var c15 = Check[planCase]{
	Property: "C15", Stage: "merge-vectors",
	Gen: genVecPlanCase, Run: runVecPlanCase,
	Classify: func(c planCase) (bool, []string) {
		cl, _, _ := classifyPlan(c.Plan)
		nt := false
		walkPlan(c.Plan, func(n *spec.MergePlan) {
			if n.IsLeaf() {
				if n.Leaf.VecWide != nil {
					cl = append(cl, "clustered(>=1000 vectors)")
				}
				return
			}
			withField := map[string]int{}
			deletedVec := false
			for i := range n.Children {
				cr := spec.Resolve(&n.Children[i])
				co := spec.ExpectResolved(cr)
				for f, vf := range co.Vec {
					if len(vf.Entries) > 0 {
						withField[f]++
					}
					dropped := dropSet(n.Drops[i])
					all := true
					for _, e := range vf.Entries {
						if dropped[e.Doc] {
							deletedVec = true
						} else {
							all = false
						}
					}
					if all && len(vf.Entries) > 0 {
						cl = append(cl, "input-with-all-vectors-deleted")
					}
				}
			}
			for f, k := range withField {
				if k >= 2 && deletedVec {
					nt = true
				}
				if k < len(n.Children) {
					cl = append(cl, "field-in-some-inputs-only")
				}
				_ = f
			}
			ro := spec.ExpectResolved(spec.Resolve(n))
			for f := range withField {
				if ro.Vec[f] == nil {
					cl = append(cl, "field-with-every-vector-deleted")
				}
			}
		})
		return nt, dedup(cl)
	},
}

func init() { c15.register() }

func TestC15(t *testing.T) { c15.Rapid(t) }
