//go:build vectors

package checks

import (
	"bytes"
	"fmt"
	"os"
	"testing"

	faiss "github.com/blevesearch/go-faiss"
	zap "github.com/blevesearch/zapx/v16"
	"pgregory.net/rapid"

	"verifharness/drive"
	"verifharness/gen"
	"verifharness/indep"
	"verifharness/spec"
	"verifharness/stats"
)

// C15 — merged vector indexes hold exactly the survivors' vectors, renumbered.

func genVecPlanCase(t *rapid.T) planCase {
	so := gen.DefaultSchemaOpts()
	so.Vectors = 2
	so.MaxFields = 2
	s := gen.GenSchema(t, so)
	po := gen.PlanOpts{MaxDepth: 3, MaxChildren: 3, Batch: gen.BatchOpts{MaxDocs: 8, AllowEmpty: true}}
	p := s.GenPlan(t, "p", po)
	if gen.Chance(t, "clustered", 15) {
		// make the first leaf large so the merged total crosses 1000 vectors, and shape its
		// deletions so that the survivors of the field land on interesting counts:
		// below / at / above the exact-vs-clustered threshold (1000) and on multiples of 1024
		var first *spec.MergePlan
		walkPlan(p, func(n *spec.MergePlan) {
			if first == nil && n.IsLeaf() {
				first = n
			}
		})
		vo := s.Vecs[0]
		n := rapid.SampledFrom([]int{995, 1010, 1200, 1100, 2100}).Draw(t, "vwN")
		first.Leaf.VecWide = &spec.VecWideSpec{N: n, Field: vo.Name, Dim: vo.Dim, Metric: vo.Metric, Opt: vo.Opt, Seed: uint32(rapid.IntRange(0, 500).Draw(t, "vwSeed"))}
		parent, idx := findParent(p, first)
		if parent != nil {
			target := rapid.SampledFrom([]int{1024, 2048, 1023, 1025, 999, 1000, 900, 15, 0}).Draw(t, "vwTarget")
			if target > 0 {
				// vectors of the field that survive this merge without any wide document
				all := spec.DropSpec{Docs: append([]uint32(nil), parent.Drops[idx].Docs...)}
				base := len(first.Leaf.Docs)
				for i := 0; i < n; i++ {
					all.Docs = append(all.Docs, uint32(base+i))
				}
				saved := parent.Drops[idx]
				parent.Drops[idx] = all
				s0 := 0
				if vf := spec.ExpectResolved(spec.Resolve(parent)).Vec[vo.Name]; vf != nil {
					s0 = len(vf.Entries)
				}
				parent.Drops[idx] = saved
				keep := target - s0
				if keep >= 0 && keep <= n {
					d := spec.DropSpec{Docs: append([]uint32(nil), saved.Docs...)}
					for i := 0; i < n-keep; i++ {
						d.Docs = append(d.Docs, uint32(base+i))
					}
					parent.Drops[idx] = d
				}
			}
		}
	}
	return planCase{Plan: p}
}

// findParent returns the inner node (and child index) that has leaf as a direct child.
func findParent(root, leaf *spec.MergePlan) (*spec.MergePlan, int) {
	for i := range root.Children {
		if &root.Children[i] == leaf {
			return root, i
		}
		if p, k := findParent(&root.Children[i], leaf); p != nil {
			return p, k
		}
	}
	return nil, 0
}

func runVecPlanCase(c planCase) *Violation {
	const prop = "C15"
	fakeReset()
	var res *drive.PlanResult
	err := drive.Safe(func() error {
		var e error
		res, e = drive.RunPlan(c.Plan)
		return e
	})
	if err != nil {
		return violation(prop, "merge/error", "executing the plan failed: %v", err)
	}
	defer res.Close()
	for ni, node := range res.Nodes {
		r := spec.Resolve(node.Plan)
		want := spec.ExpectResolved(r)
		tag := fmt.Sprintf("merge output %d/%d (depth %d)", ni+1, len(res.Nodes), node.Plan.Depth())
		if node.Seg.Count() != want.Count {
			return violation(prop, "merge/count", "%s: Count %d, model %d", tag, node.Seg.Count(), want.Count)
		}
		if v := vectorSegmentCheck(prop, node.Seg, want, tag); v != nil {
			return v
		}
		// what the merged file records about each vector field (id table, optimisation type, index
		// bytes) is what later merges and searches start from: it must describe exactly the survivors
		data, err := os.ReadFile(node.Path)
		if err != nil {
			return violation(prop, "merge/no-file", "%s: %v", tag, err)
		}
		var f *indep.File
		if err := drive.Safe(func() error {
			var e error
			f, e = indep.Decode(data)
			return e
		}); err != nil {
			return violation(prop, "merge/undecodable", "%s: %v", tag, err)
		}
		if v := checkVectorEnvelope(prop, tag, f, want); v != nil {
			return v
		}
		// a clustered merged index must be configured like an index built directly from the
		// survivors (same number of probed clusters), or searches differ although the vectors agree
		if v := compareProbesWithRebuild(prop, tag, f, want, r.Docs); v != nil {
			return v
		}
	}
	if m := faissMisuse(); m != "" {
		return violation(prop, "vec/engine-misuse", "%s", m)
	}
	return nil
}

var c15 = Check[planCase]{
	Property: "C15", Stage: "merge-vectors",
	Gen: genVecPlanCase, Run: runVecPlanCase,
	Classify: func(c planCase) (bool, []string) {
		cl, _, _ := classifyPlan(c.Plan)
		nt := false
		walkPlan(c.Plan, func(n *spec.MergePlan) {
			if n.IsLeaf() {
				if n.Leaf.VecWide != nil {
					cl = append(cl, "clustered(>=1000 vectors)")
				}
				return
			}
			withField := map[string]int{}
			deletedVec := false
			for i := range n.Children {
				cr := spec.Resolve(&n.Children[i])
				co := spec.ExpectResolved(cr)
				for f, vf := range co.Vec {
					if len(vf.Entries) > 0 {
						withField[f]++
					}
					dropped := dropSet(n.Drops[i])
					all := true
					for _, e := range vf.Entries {
						if dropped[e.Doc] {
							deletedVec = true
						} else {
							all = false
						}
					}
					if all && len(vf.Entries) > 0 {
						cl = append(cl, "input-with-all-vectors-deleted")
					}
				}
			}
			for f, k := range withField {
				if k >= 2 && deletedVec {
					nt = true
				}
				if k < len(n.Children) {
					cl = append(cl, "field-in-some-inputs-only")
				}
				_ = f
			}
			ro := spec.ExpectResolved(spec.Resolve(n))
			for f := range withField {
				if ro.Vec[f] == nil {
					cl = append(cl, "field-with-every-vector-deleted")
				}
			}
		})
		return nt, dedup(cl)
	},
}

func init() { c15.register() }

func TestC15(t *testing.T) { c15.Rapid(t) }

// nprobeOf reads the probe count of every clustered vector index of a decoded file.
func nprobeOf(f *indep.File) (map[string]int32, error) {
	out := map[string]int32{}
	for _, fi := range f.Fields {
		if fi.Vector == nil || len(fi.Vector.Entries) < 1000 {
			continue
		}
		idx, err := faiss.ReadIndexFromBuffer(fi.Vector.IndexBytes, 0)
		if err != nil {
			return nil, err
		}
		if idx.IsIVFIndex() {
			out[fi.Name] = idx.GetNProbe()
		}
		idx.Close()
	}
	return out, nil
}

func compareProbesWithRebuild(prop, tag string, merged *indep.File, want *spec.Obs, survivors []spec.DocSpec) *Violation {
	clustered := false
	for _, vf := range want.Vec {
		if len(vf.Entries) >= 1000 {
			clustered = true
		}
	}
	if !clustered {
		return nil
	}
	got, err := nprobeOf(merged)
	if err != nil {
		return violation(prop, "merge/undecodable", "%s: %v", tag, err)
	}
	var ref map[string]int32
	if err := drive.Safe(func() error {
		seg, _, e := drive.Build(&spec.BatchSpec{Docs: survivors}, 0)
		if e != nil {
			return e
		}
		defer seg.Close()
		var buf bytes.Buffer
		if _, e := seg.(*zap.SegmentBase).WriteTo(&buf); e != nil {
			return e
		}
		f, e := indep.Decode(buf.Bytes())
		if e != nil {
			return e
		}
		ref, e = nprobeOf(f)
		return e
	}); err != nil {
		return violation(prop, "merge/rebuild-error", "%s: building the survivors directly failed: %v", tag, err)
	}
	for f, n := range ref {
		if g, ok := got[f]; ok && g != n {
			return violation(prop, "merge/clustered-index-configuration", "%s: field %q: the merged clustered index probes %d clusters per search, an index built directly from the same %d survivors probes %d", tag, f, g, len(want.Vec[f].Entries), n)
		}
	}
	return nil
}

// Deterministic plans whose leaves were written by OTHER processes (what a process finds after a
// restart): the leaves hold the same vectors in the same order - whatever a writer derives from
// process-wide state (counters, random sources) may therefore coincide between them - under
// different document ids. Merged once, and the result merged again with a further such file.
func TestC15Restart(t *testing.T) {
	col := stats.New("C15", "merge-vectors")
	defer col.Write()
	mk := func(tag string, n int) spec.MergePlan {
		b := &spec.BatchSpec{}
		for i := 0; i < n; i++ {
			d := spec.DocSpec{ID: spec.B(fmt.Sprintf("%s%02d", tag, i))}
			if i%4 != 3 {
				d.Fields = append(d.Fields, spec.FieldSpec{Name: "vec", Kind: spec.KindVec, Vec: &spec.VecSpec{Dim: 2, Data: []float32{float32(i % 3), float32(i)}, Metric: "l2_norm", Opt: "recall"}})
			}
			if i%5 == 0 {
				d.Fields = append(d.Fields, spec.FieldSpec{Name: "vec", Kind: spec.KindVec, Vec: &spec.VecSpec{Dim: 2, Data: []float32{7, float32(i)}, Metric: "l2_norm", Opt: "recall"}})
			}
			b.Docs = append(b.Docs, d)
		}
		return spec.MergePlan{Leaf: b, Child: true}
	}
	inner := spec.MergePlan{Children: []spec.MergePlan{mk("a", 12), mk("b", 12), mk("c", 9)},
		Drops: []spec.DropSpec{{Nil: true}, {Docs: []uint32{0, 5}}, {Docs: []uint32{2}}}}
	c := planCase{Plan: &spec.MergePlan{Children: []spec.MergePlan{inner, mk("d", 12)}, Drops: []spec.DropSpec{{Docs: []uint32{1}}, {Nil: true}}}}
	col.CaseHash(stats.HashJSON("fixed-leaves-from-other-processes"), true, []string{"leaves-written-by-other-processes", "second-generation"}, func() any { return sampleOf(c) })
	reportBig(t, col, "C15", "merge-vectors", c, safeRun(c15, c))
}

// Deterministic plan: two inputs of 100000 documents each, all carrying the SAME vector. Ids that
// were unique inside each input need not be unique across them (D9); the merged index must still
// hold and count every vector.
func TestC15Identical(t *testing.T) {
	col := stats.New("C15", "merge-vectors")
	defer col.Write()
	leaf := func(seed uint32) spec.MergePlan {
		return spec.MergePlan{Leaf: &spec.BatchSpec{VecWide: &spec.VecWideSpec{N: 100000, Field: "vec", Dim: 2, Metric: "l2_norm", Opt: "recall", Seed: seed, Same: true}}}
	}
	c := planCase{Plan: &spec.MergePlan{Children: []spec.MergePlan{leaf(1), leaf(2)}, Drops: []spec.DropSpec{{Nil: true}, {Docs: []uint32{0}}}}}
	col.CaseHash(stats.HashJSON("fixed-identical-vectors-in-two-inputs"), true, []string{"clustered", "2x100000-identical-vectors"}, func() any { return sampleOf(c) })
	reportBig(t, col, "C15", "merge-vectors", c, safeRun(c15, c))
}
