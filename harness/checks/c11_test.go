package checks

import (
	"bytes"
	"encoding/json"
	"fmt"
	"os"
	"path/filepath"
	"reflect"
	"runtime"
	"sort"
	"sync"
	"testing"

	"github.com/RoaringBitmap/roaring/v2"
	segment "github.com/blevesearch/scorch_segment_api/v2"
	zap "github.com/blevesearch/zapx/v16"
	"pgregory.net/rapid"

	"verifharness/drive"
	"verifharness/gen"
	"verifharness/spec"
)

// C11 — a segment can be read by many goroutines at once with sequential answers.

// ---------------------------------------------------------------------------
// stage 1: deterministic pool histories (the harness owns the schedule)

type poolAction struct {
	Op   string `json:"op"` // full early docid overlap
	Doc  int    `json:"doc"`
	Doc2 int    `json:"doc2,omitempty"`
	Stop int    `json:"stop,omitempty"` // early: stop after this many callbacks (>= 1)
}

type poolCase struct {
	Batch   *spec.BatchSpec `json:"batch"`
	Mmap    bool            `json:"mmap"`
	Actions []poolAction    `json:"actions"`
}

func genPoolCase(t *rapid.T) poolCase {
	o := gen.DefaultSchemaOpts()
	o.ForceStored = true
	o.MinFields = 2
	s := gen.GenSchema(t, o)
	for i := range s.Fields {
		if i%2 == 0 {
			s.Fields[i].Stored = true
		}
	}
	b := s.GenBatch(t, "b", gen.BatchOpts{MaxDocs: 8, MinDocs: 2})
	c := poolCase{Batch: b, Mmap: rapid.Bool().Draw(t, "mmap")}
	nd := b.NumDocs()
	n := rapid.IntRange(2, 14).Draw(t, "nActions")
	for i := 0; i < n; i++ {
		al := fmt.Sprintf("a%d", i)
		a := poolAction{Op: rapid.SampledFrom([]string{"full", "early", "overlap", "docid", "overlap", "early"}).Draw(t, al+"op")}
		a.Doc = rapid.IntRange(0, nd-1).Draw(t, al+"doc")
		switch a.Op {
		case "early":
			a.Stop = rapid.IntRange(1, 3).Draw(t, al+"stop")
		case "overlap":
			a.Doc2 = rapid.IntRange(0, nd-1).Draw(t, al+"doc2")
		}
		c.Actions = append(c.Actions, a)
	}
	return c
}

func storedEqual(a, b []spec.StoredVal) bool {
	if len(a) != len(b) {
		return false
	}
	for i := range a {
		if a[i].Field != b[i].Field || a[i].Typ != b[i].Typ || !bytes.Equal(a[i].Val, b[i].Val) || !reflect.DeepEqual(a[i].AP, b[i].AP) {
			return false
		}
	}
	return true
}

func runPoolCase(c poolCase) *Violation {
	const prop = "C11"
	prevProcs := runtime.GOMAXPROCS(1)
	defer runtime.GOMAXPROCS(prevProcs)
	zap.VerifResetPools()
	want := spec.Expect(c.Batch)
	seg, closeFn, v := openVariant(prop, c.Batch, 0, c.Mmap)
	if v != nil {
		return v
	}
	defer closeFn()
	err := drive.Safe(func() error {
		for i, a := range c.Actions {
			where := fmt.Sprintf("action %d %+v", i, a)
			switch a.Op {
			case "full":
				got, err := drive.VisitStored(seg, uint64(a.Doc))
				if err != nil {
					return fmt.Errorf("%s: %w", where, err)
				}
				for k := range got {
					if len(got[k].AP) == 0 {
						got[k].AP = nil
					}
				}
				if !storedEqual(want.Stored[a.Doc], got) {
					v = violation(prop, "pool/visit-mismatch", "%s: visited %v, model %v", where, got, want.Stored[a.Doc])
					return nil
				}
			case "early":
				calls := 0
				err := seg.VisitStoredFields(uint64(a.Doc), func(string, byte, []byte, []uint64) bool {
					calls++
					return calls < a.Stop
				})
				if err != nil {
					return fmt.Errorf("%s: %w", where, err)
				}
			case "docid":
				id, err := seg.DocID(uint64(a.Doc))
				if err != nil {
					return fmt.Errorf("%s: %w", where, err)
				}
				if !bytes.Equal(id, want.Stored[a.Doc][0].Val) {
					v = violation(prop, "pool/docid-mismatch", "%s: DocID %q, model %q", where, id, want.Stored[a.Doc][0].Val)
					return nil
				}
			case "overlap":
				// a visitor on Doc that, inside every callback, lets another
				// goroutine complete a full visit of Doc2 and then re-reads
				// the bytes it was handed
				idx := 0
				var inner *Violation
				err := seg.VisitStoredFields(uint64(a.Doc), func(field string, typ byte, value []byte, pos []uint64) bool {
					snapVal := append([]byte{}, value...)
					snapPos := append([]uint64(nil), pos...)
					done := make(chan error, 1)
					var other []spec.StoredVal
					go func() {
						var e error
						other, e = drive.VisitStored(seg, uint64(a.Doc2))
						done <- e
					}()
					if e := <-done; e != nil {
						inner = violation(prop, "pool/overlap-error", "%s: concurrent visit failed: %v", where, e)
						return false
					}
					for k := range other {
						if len(other[k].AP) == 0 {
							other[k].AP = nil
						}
					}
					if !storedEqual(want.Stored[a.Doc2], other) {
						inner = violation(prop, "pool/overlap-other-visit-mismatch", "%s: the visit of doc %d running during doc %d's callback saw %v, model %v", where, a.Doc2, a.Doc, other, want.Stored[a.Doc2])
						return false
					}
					if !bytes.Equal(snapVal, value) || !reflect.DeepEqual(snapPos, append([]uint64(nil), pos...)) {
						inner = violation(prop, "pool/bytes-changed-during-callback", "%s: bytes handed to the visitor for field %q changed during the callback while another goroutine visited doc %d: before %q after %q", where, field, a.Doc2, trunc(snapVal), trunc(value))
						return false
					}
					if idx < len(want.Stored[a.Doc]) {
						w := want.Stored[a.Doc][idx]
						if w.Field != field || w.Typ != typ || !bytes.Equal(w.Val, value) {
							inner = violation(prop, "pool/visit-mismatch", "%s: callback %d got (%q,%q,%q), model (%q,%q,%q)", where, idx, field, typ, trunc(value), w.Field, w.Typ, trunc(w.Val))
							return false
						}
					}
					idx++
					return true
				})
				if err != nil {
					return fmt.Errorf("%s: %w", where, err)
				}
				if inner != nil {
					v = inner
					return nil
				}
				if idx != len(want.Stored[a.Doc]) {
					v = violation(prop, "pool/visit-mismatch", "%s: %d callbacks, model %d", where, idx, len(want.Stored[a.Doc]))
					return nil
				}
			}
		}
		return nil
	})
	if err != nil {
		return violation(prop, "pool/error", "%v", err)
	}
	return v
}

func trunc(b []byte) []byte {
	if len(b) > 40 {
		return b[:40]
	}
	return b
}

var c11pool = Check[poolCase]{
	Property: "C11", Stage: "pool-history",
	Gen: genPoolCase, Run: runPoolCase,
	Classify: func(c poolCase) (bool, []string) {
		var cl []string
		early, nt := false, false
		for _, a := range c.Actions {
			if a.Op == "early" {
				early = true
				cl = append(cl, "early-stop")
			}
			if a.Op == "overlap" {
				cl = append(cl, "overlap")
				if early {
					nt = true
				}
			}
		}
		if nt {
			cl = append(cl, "early-stop-then-overlap")
		}
		return nt, dedup(cl)
	},
}

func TestC11Pool(t *testing.T) { c11pool.Rapid(t) }

// ---------------------------------------------------------------------------
// stage 2: concurrent script stress (run with -race; schedules are sampled)

type readerOp struct {
	Kind int `json:"k"` // 0 dict 1 postings 2 stored 3 earlystop 4 docid 5 docnumbers 6 dv 7 thes 8 merge 9 hammer (many DocNumbers/DocID/lookups) 10 thesaurus with recycled, partly drained iterators
	A    int `json:"a"`
	B    int `json:"b"`
}

type stressCase struct {
	Batch   *spec.BatchSpec `json:"batch"`
	Other   *spec.BatchSpec `json:"other"`
	Mmap    bool            `json:"mmap"`
	DVChunk uint32          `json:"dvChunk"` // doc-value chunk size (0 = default 1024)
	Scripts [][]readerOp    `json:"scripts"`
}

func genStressCase(t *rapid.T) stressCase {
	o := gen.DefaultSchemaOpts()
	o.ForceStored, o.ForceDV = true, true
	o.Synonyms = 1
	o.MinFields = 2
	s := gen.GenSchema(t, o)
	c := stressCase{Mmap: rapid.Bool().Draw(t, "mmap")}
	c.DVChunk = rapid.SampledFrom([]uint32{2, 1024, 1, 3}).Draw(t, "dvChunk")
	c.Batch = s.GenBatch(t, "b", gen.BatchOpts{MaxDocs: 10, MinDocs: 2, SynPct: 30})
	c.Other = s.GenBatch(t, "o", gen.BatchOpts{MaxDocs: 4, MinDocs: 1, SynPct: 30})
	g := rapid.SampledFrom([]int{4, 2, 8, 3}).Draw(t, "goroutines")
	for i := 0; i < g; i++ {
		n := rapid.IntRange(3, 12).Draw(t, fmt.Sprintf("g%dn", i))
		var sc []readerOp
		for j := 0; j < n; j++ {
			l := fmt.Sprintf("g%do%d", i, j)
			sc = append(sc, readerOp{
				Kind: rapid.SampledFrom([]int{2, 0, 1, 3, 4, 5, 6, 7, 8, 3, 2, 9, 10, 9, 11, 0}).Draw(t, l+"k"),
				A:    rapid.IntRange(0, 15).Draw(t, l+"a"),
				B:    rapid.IntRange(0, 15).Draw(t, l+"b"),
			})
		}
		c.Scripts = append(c.Scripts, sc)
	}
	return c
}

func sortedIndexFields(o *spec.Obs) []string {
	var out []string
	for f := range o.Index {
		out = append(out, f)
	}
	sort.Strings(out)
	return out
}

// runReaderOp executes one reader call and compares it with the model.
func runReaderOp(prop string, seg, other segment.Segment, want, wantOther *spec.Obs, op readerOp, g int, mergeWant func(dropDoc int) *spec.Obs) *Violation {
	fields := sortedIndexFields(want)
	nd := int(want.Count)
	pickField := func() string { return fields[op.A%len(fields)] }
	switch op.Kind {
	case 0: // full dictionary + postings of one field
		f := pickField()
		d, err := seg.Dictionary(f)
		if err != nil {
			return violation(prop, "stress/error", "Dictionary(%q): %v", f, err)
		}
		terms, _, err := drive.DictTerms(d)
		if err != nil {
			return violation(prop, "stress/error", "dict iteration %q: %v", f, err)
		}
		var wt []string
		for t := range want.Index[f] {
			wt = append(wt, t)
		}
		sort.Strings(wt)
		if !reflect.DeepEqual(terms, wt) && !(len(terms) == 0 && len(wt) == 0) {
			return violation(prop, "stress/dict-mismatch", "goroutine %d: Dictionary(%q) terms %q, model %q", g, f, terms, wt)
		}
	case 1: // postings of one term with a private except bitmap
		f := pickField()
		var wt []string
		for t := range want.Index[f] {
			wt = append(wt, t)
		}
		sort.Strings(wt)
		term := wt[op.B%len(wt)]
		d, err := seg.Dictionary(f)
		if err != nil {
			return violation(prop, "stress/error", "Dictionary(%q): %v", f, err)
		}
		var except *roaring.Bitmap
		exDoc := -1
		if op.B%3 == 0 {
			exDoc = op.A % nd
			except = roaring.BitmapOf(uint32(exDoc))
		}
		pl, err := d.PostingsList([]byte(term), except, nil)
		if err != nil {
			return violation(prop, "stress/error", "PostingsList: %v", err)
		}
		hits, err := drive.Hits(pl)
		if err != nil {
			return violation(prop, "stress/error", "postings iteration: %v", err)
		}
		wh := filterHits(want.Index[f][term], func(doc uint64) bool { return int(doc) == exDoc })
		if dd := spec.DiffHits(wh, hits); dd != "" {
			return violation(prop, "stress/postings-mismatch", "goroutine %d: (%q,%q) except doc %d: %s", g, f, term, exDoc, dd)
		}
	case 2: // full stored visit
		n := op.A % nd
		got, err := drive.VisitStored(seg, uint64(n))
		if err != nil {
			return violation(prop, "stress/error", "VisitStoredFields: %v", err)
		}
		for k := range got {
			if len(got[k].AP) == 0 {
				got[k].AP = nil
			}
		}
		if !storedEqual(want.Stored[n], got) {
			return violation(prop, "stress/stored-mismatch", "goroutine %d: doc %d visited %v, model %v", g, n, got, want.Stored[n])
		}
	case 3: // early-stopped visit, checking the bytes inside the callback
		n := op.A % nd
		stop := 1 + op.B%2
		calls := 0
		var bad *Violation
		err := seg.VisitStoredFields(uint64(n), func(field string, typ byte, value []byte, pos []uint64) bool {
			if calls < len(want.Stored[n]) {
				w := want.Stored[n][calls]
				runtime.Gosched()
				if w.Field != field || !bytes.Equal(w.Val, value) {
					bad = violation(prop, "stress/stored-mismatch", "goroutine %d: doc %d callback %d got (%q,%q), model (%q,%q)", g, n, calls, field, trunc(value), w.Field, trunc(w.Val))
				}
			}
			calls++
			return calls < stop
		})
		if err != nil {
			return violation(prop, "stress/error", "VisitStoredFields: %v", err)
		}
		if bad != nil {
			return bad
		}
	case 4:
		n := op.A % nd
		id, err := seg.DocID(uint64(n))
		if err != nil || !bytes.Equal(id, want.Stored[n][0].Val) {
			return violation(prop, "stress/docid-mismatch", "goroutine %d: DocID(%d)=%q,%v model %q", g, n, id, err, want.Stored[n][0].Val)
		}
	case 5:
		n := op.A % nd
		id := string(want.Stored[n][0].Val)
		bm, err := seg.DocNumbers([]string{id, "nosuchid"})
		if err != nil {
			return violation(prop, "stress/error", "DocNumbers: %v", err)
		}
		var exp []uint32
		for k := range want.Stored {
			if string(want.Stored[k][0].Val) == id {
				exp = append(exp, uint32(k))
			}
		}
		if !reflect.DeepEqual(bm.ToArray(), exp) {
			return violation(prop, "stress/docnumbers-mismatch", "goroutine %d: DocNumbers(%q)=%v model %v", g, id, bm.ToArray(), exp)
		}
		// a result belongs to its caller, who goes on modifying it - also a result without any hit
		bm.Add(0xfffffff0 + uint32(g))
		none, err := seg.DocNumbers([]string{"nosuchid", "\x02nor-this\x02"})
		if err != nil {
			return violation(prop, "stress/error", "DocNumbers: %v", err)
		}
		if !none.IsEmpty() {
			return violation(prop, "stress/docnumbers-mismatch", "goroutine %d: DocNumbers of absent ids = %v", g, none.ToArray())
		}
		none.Add(0xffffff00 + uint32(g))
	case 6: // doc values with a private state over a few docs
		dvs := seg.(segment.DocValueVisitable)
		var st segment.DocVisitState
		for k := 0; k < 3; k++ {
			n := uint64((op.A + k*op.B) % nd)
			got := map[string][]string{}
			var err error
			// every goroutine passes the SAME field list (a reader shares one list among all segments
			// and goroutines); it starts with a name the segment does not know
			st, err = dvs.VisitDocValues(n, stressDVFields, func(field string, term []byte) {
				got[field] = append(got[field], string(term))
			}, st)
			if err != nil {
				return violation(prop, "stress/error", "VisitDocValues: %v", err)
			}
			exp := map[string][]string{}
			for f, docs := range want.DV {
				if len(docs[n]) > 0 {
					exp[f] = docs[n]
				}
			}
			for f := range got {
				sort.Strings(got[f])
			}
			if !reflect.DeepEqual(got, exp) {
				return violation(prop, "stress/dv-mismatch", "goroutine %d: doc %d doc values %q, model %q", g, n, got, exp)
			}
		}
	case 7: // thesaurus lookups
		var names []string
		for n := range want.Thes {
			names = append(names, n)
		}
		if len(names) == 0 {
			return nil
		}
		sort.Strings(names)
		name := names[op.A%len(names)]
		th, _, err := drive.ObserveThesaurus(seg, name, nil)
		if err != nil {
			return violation(prop, "stress/error", "Thesaurus: %v", err)
		}
		for t := range th {
			sortPairs(th[t])
		}
		if !reflect.DeepEqual(th, want.Thes[name]) {
			return violation(prop, "stress/thesaurus-mismatch", "goroutine %d: thesaurus %q = %v, model %v", g, name, th, want.Thes[name])
		}
	case 9: // hammer: many short calls so that calls of different goroutines really overlap
		for rep := 0; rep < 150; rep++ {
			n := (op.A + rep) % nd
			id := string(want.Stored[n][0].Val)
			bm, err := seg.DocNumbers([]string{id, "nosuchid", string(want.Stored[(n+1)%nd][0].Val)})
			if err != nil {
				return violation(prop, "stress/error", "DocNumbers: %v", err)
			}
			exp := map[uint32]bool{}
			for k := range want.Stored {
				sid := string(want.Stored[k][0].Val)
				if sid == id || sid == string(want.Stored[(n+1)%nd][0].Val) {
					exp[uint32(k)] = true
				}
			}
			got := bm.ToArray()
			ok := len(got) == len(exp)
			for _, x := range got {
				if !exp[x] {
					ok = false
				}
			}
			if !ok {
				return violation(prop, "stress/docnumbers-mismatch", "goroutine %d: DocNumbers(%q,...)=%v model %v", g, id, got, exp)
			}
			did, err := seg.DocID(uint64(n))
			if err != nil || !bytes.Equal(did, want.Stored[n][0].Val) {
				return violation(prop, "stress/docid-mismatch", "goroutine %d: DocID(%d)=%q,%v model %q", g, n, did, err, want.Stored[n][0].Val)
			}
			d, err := seg.Dictionary("_id")
			if err != nil {
				return violation(prop, "stress/error", "Dictionary(_id): %v", err)
			}
			pl, err := d.PostingsList([]byte(id), nil, nil)
			if err != nil {
				return violation(prop, "stress/error", "PostingsList: %v", err)
			}
			if pl.Count() != uint64(len(want.Index["_id"][id])) {
				return violation(prop, "stress/postings-mismatch", "goroutine %d: (_id,%q) Count %d model %d", g, id, pl.Count(), len(want.Index["_id"][id]))
			}
		}
	case 10: // thesaurus lookups the way a recycling reader does them: empty lookup, then a
		// non-empty one reusing that iterator, drained only partly, then empty lookups again
		ts, ok := seg.(segment.ThesaurusSegment)
		if !ok {
			return nil
		}
		var names []string
		for n := range want.Thes {
			names = append(names, n)
		}
		if len(names) == 0 {
			return nil
		}
		sort.Strings(names)
		name := names[op.A%len(names)]
		th, err := ts.Thesaurus(name)
		if err != nil {
			return violation(prop, "stress/error", "Thesaurus: %v", err)
		}
		var terms []string
		for t := range want.Thes[name] {
			terms = append(terms, t)
		}
		sort.Strings(terms)
		known := terms[op.B%len(terms)]
		el, err := th.SynonymsList([]byte("\x03none\x03"), nil, nil)
		if err != nil {
			return violation(prop, "stress/error", "SynonymsList: %v", err)
		}
		it0 := el.Iterator(nil)
		if s0, _ := it0.Next(); s0 != nil {
			return violation(prop, "stress/thesaurus-mismatch", "goroutine %d: unknown term of thesaurus %q yields %q", g, name, s0.Term())
		}
		kl, err := th.SynonymsList([]byte(known), nil, nil)
		if err != nil {
			return violation(prop, "stress/error", "SynonymsList: %v", err)
		}
		it1 := kl.Iterator(it0)
		first, err := it1.Next()
		if err != nil || first == nil {
			return violation(prop, "stress/thesaurus-mismatch", "goroutine %d: thesaurus %q term %q yields nothing (%v), model %v", g, name, known, err, want.Thes[name][known])
		}
		okPair := false
		for _, p := range want.Thes[name][known] {
			if p.Syn == first.Term() && p.Doc == first.Number() {
				okPair = true
			}
		}
		if !okPair {
			return violation(prop, "stress/thesaurus-mismatch", "goroutine %d: thesaurus %q term %q yields (%q,%d), not in model %v", g, name, known, first.Term(), first.Number(), want.Thes[name][known])
		}
		runtime.Gosched()
		el2, err := th.SynonymsList([]byte("\x03none2\x03"), nil, nil)
		if err != nil {
			return violation(prop, "stress/error", "SynonymsList: %v", err)
		}
		if s2, _ := el2.Iterator(nil).Next(); s2 != nil {
			return violation(prop, "stress/thesaurus-mismatch", "goroutine %d: an unknown term of thesaurus %q yields %q", g, name, s2.Term())
		}
		for {
			x, err := it1.Next()
			if err != nil || x == nil {
				break
			}
		}
	case 11: // the segment's memory accounting, as an index does for every new snapshot
		// (only called: the value is an accounting figure no property speaks about - for an opened
		// file it can even be negative; what matters is that calling it concurrently is safe)
		_ = seg.Size()
	case 8: // use the shared segment as a merge input
		path := drive.NewPath("c11merge")
		drops := []*roaring.Bitmap{nil, nil}
		if op.B%2 == 0 {
			drops[0] = roaring.BitmapOf(uint32(op.A % nd))
		}
		nums, _, err := drive.Merge([]segment.Segment{seg, other}, drops, path, 0, nil, nil)
		defer os.Remove(path)
		if err != nil {
			return violation(prop, "stress/merge-error", "goroutine %d: merge with the shared segment as input failed: %v", g, err)
		}
		exp := want.Count
		dropDoc := -1
		if drops[0] != nil {
			exp--
			dropDoc = op.A % nd
		}
		surv := uint64(0)
		for _, x := range nums[0] {
			if x != spec.DocDropped {
				surv++
			}
		}
		if surv != exp {
			return violation(prop, "stress/merge-mismatch", "goroutine %d: merge kept %d documents of the shared segment, model %d", g, surv, exp)
		}
		// the merged output must be complete and correct although other
		// goroutines read (and merge) the same input at the same time
		mw := mergeWant(dropDoc)
		if vv := reopenAndCompare(prop, path, mw, spec.DiffOpts{DVFieldsSub: true, SkipFields: true}); vv != nil {
			vv.Signature = "stress/merge-output-" + vv.Signature
			vv.Message = fmt.Sprintf("goroutine %d: merge with the shared segment as input: %s", g, vv.Message)
			return vv
		}
		if op.A%2 == 1 {
			// second generation: the output (which now holds single-hit dictionary entries) is
			// merged once more on its own - the byte-copying path - while the other goroutines
			// do the same with theirs
			prod, err := drive.Open(path)
			if err != nil {
				return violation(prop, "stress/error", "goroutine %d: opening the merge output: %v", g, err)
			}
			path2 := drive.NewPath("c11merge2")
			defer os.Remove(path2)
			_, _, err = drive.Merge([]segment.Segment{prod}, []*roaring.Bitmap{nil}, path2, 0, nil, nil)
			prod.Close()
			if err != nil {
				return violation(prop, "stress/merge-error", "goroutine %d: re-merging the merge output failed: %v", g, err)
			}
			if vv := reopenAndCompare(prop, path2, mw, spec.DiffOpts{DVFieldsSub: true, SkipFields: true}); vv != nil {
				vv.Signature = "stress/remerge-output-" + vv.Signature
				vv.Message = fmt.Sprintf("goroutine %d: the merge output merged once more on its own: %s", g, vv.Message)
				return vv
			}
		}
	}
	return nil
}

// stressDVFields is the one doc-value field list all goroutines of a stress case pass (set before
// they start, never written by the harness afterwards).
var stressDVFields []string

func runStressCase(c stressCase) *Violation {
	const prop = "C11"
	zap.VerifResetPools()
	if c.DVChunk != 0 {
		// set before any goroutine starts, restored after all have finished
		old := zap.LegacyChunkMode
		zap.LegacyChunkMode = c.DVChunk
		defer func() { zap.LegacyChunkMode = old }()
	}
	want, wantOther := spec.Expect(c.Batch), spec.Expect(c.Other)
	stressDVFields = append([]string{"\x01no-such-field"}, want.Fields...)
	pristineDVFields := append([]string(nil), stressDVFields...)
	mergeWant := func(dropDoc int) *spec.Obs {
		p := &spec.MergePlan{Children: []spec.MergePlan{{Leaf: c.Batch}, {Leaf: c.Other}}, Drops: []spec.DropSpec{{Nil: true}, {Nil: true}}}
		if dropDoc >= 0 {
			p.Drops[0] = spec.DropSpec{Docs: []uint32{uint32(dropDoc)}}
		}
		return spec.ExpectResolved(spec.Resolve(p))
	}
	seg, closeFn, v := openVariant(prop, c.Batch, 0, c.Mmap)
	if v != nil {
		return v
	}
	defer closeFn()
	other, closeOther, v := openVariant(prop, c.Other, 0, false)
	if v != nil {
		return v
	}
	defer closeOther()
	res := make([]*Violation, len(c.Scripts))
	var wg sync.WaitGroup
	start := make(chan struct{})
	for g := range c.Scripts {
		wg.Add(1)
		go func(g int) {
			defer wg.Done()
			<-start
			err := drive.Safe(func() error {
				for _, op := range c.Scripts[g] {
					if vv := runReaderOp(prop, seg, other, want, wantOther, op, g, mergeWant); vv != nil {
						res[g] = vv
						return nil
					}
				}
				return nil
			})
			if err != nil && res[g] == nil {
				res[g] = violation(prop, "stress/error", "goroutine %d: %v", g, err)
			}
		}(g)
	}
	close(start)
	wg.Wait()
	for _, r := range res {
		if r != nil {
			return r
		}
	}
	if !reflect.DeepEqual(stressDVFields, pristineDVFields) {
		return violation(prop, "stress/field-list-modified", "the field list shared by all doc-value visits was changed from %q to %q", pristineDVFields, stressDVFields)
	}
	return nil
}

// pendingCase records the case about to run, so that a data-race report
// (which halts the process) can be attributed to it by the driver.
func pendingCase(prop, stage string, cs any) {
	dir := os.Getenv("VERIF_REPLAY_DIR")
	if dir == "" {
		return
	}
	raw, _ := json.Marshal(cs)
	rf := replayFile{Property: prop, Stage: stage, Driver: os.Getenv("VERIF_STAGE_NAME"), Signature: "data-race", Message: "the race detector reported a data race while this case was running (schedule-dependent; the replay re-runs the same scripts)", Case: raw}
	b, _ := json.Marshal(rf)
	_ = os.WriteFile(filepath.Join(dir, "pending-"+prop+"-"+stage+".json"), b, 0o644)
}

var c11stress = Check[stressCase]{
	Property: "C11", Stage: "stress",
	Gen: genStressCase,
	Run: func(c stressCase) *Violation {
		pendingCase("C11", "stress", c)
		return runStressCase(c)
	},
	Classify: func(c stressCase) (bool, []string) {
		merges := false
		for _, s := range c.Scripts {
			for _, op := range s {
				if op.Kind == 8 {
					merges = true
				}
			}
		}
		cl := []string{fmt.Sprintf("goroutines=%d", len(c.Scripts))}
		if merges {
			cl = append(cl, "concurrent-merge")
		}
		if c.Mmap {
			cl = append(cl, "mmap")
		} else {
			cl = append(cl, "in-memory")
		}
		return len(c.Scripts) >= 2 && merges, cl
	},
}

func TestC11Stress(t *testing.T) { c11stress.Rapid(t) }

func init() {
	c11pool.register()
	c11stress.register()
}
