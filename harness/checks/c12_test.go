package checks

import (
	"fmt"
	"reflect"
	"sort"
	"testing"

	"github.com/RoaringBitmap/roaring/v2"
	segment "github.com/blevesearch/scorch_segment_api/v2"
	"pgregory.net/rapid"

	"verifharness/drive"
	"verifharness/gen"
	"verifharness/spec"
)

// C12 — thesaurus lookups return exactly the defined synonyms.

type thesCase struct {
	Batch     *spec.BatchSpec `json:"batch"`
	ChunkMode uint32          `json:"chunkMode"`
	Excepts   []spec.DropSpec `json:"excepts"`
	Reuse     bool            `json:"reuse"` // pass previous list/iterator back as preallocation
	// Listings are term enumerations with an automaton and/or a key range (Field is ignored:
	// every listing runs on every thesaurus)
	Listings []dictQuery `json:"listings,omitempty"`
}

func genThesListing(t *rapid.T, label string, vocab []string) dictQuery {
	q := dictQuery{Auto: rapid.SampledFrom([]string{"lev", "prefix", "all", "nil", "exact", "contains", "lenmod3", "never"}).Draw(t, label+"auto")}
	q.Arg = spec.B(rapid.SampledFrom(vocab).Draw(t, label+"arg"))
	if q.Auto == "prefix" && len(q.Arg) > 1 && rapid.Bool().Draw(t, label+"cut") {
		q.Arg = q.Arg[:1]
	}
	q.Dist = rapid.IntRange(1, 2).Draw(t, label+"dist")
	bounds := append(append([]string{}, vocab...), "a", "h", "t", "\x7f", "\x00")
	if gen.Chance(t, label+"hasStart", 60) {
		q.HasStart, q.Start = true, spec.B(rapid.SampledFrom(bounds).Draw(t, label+"start"))
	}
	if gen.Chance(t, label+"hasEnd", 60) {
		q.HasEnd, q.End = true, spec.B(rapid.SampledFrom(bounds).Draw(t, label+"end"))
	}
	if q.HasStart && q.HasEnd && !(string(q.Start) < string(q.End)) {
		// keep the range well-formed: start < end
		if q.Start == q.End {
			q.HasEnd, q.End = false, ""
		} else {
			q.Start, q.End = q.End, q.Start
		}
	}
	return q
}

// checkThesaurusListings runs every listing on every thesaurus and compares with the model:
// exactly the left-hand terms the automaton accepts within [start, end), in ascending byte order.
func checkThesaurusListings(prop string, seg segment.Segment, want *spec.Obs, listings []dictQuery, tag string) *Violation {
	var v *Violation
	err := drive.Safe(func() error {
		ts, ok := seg.(segment.ThesaurusSegment)
		if !ok {
			return fmt.Errorf("%T is no ThesaurusSegment", seg)
		}
		var names []string
		for n := range want.Thes {
			names = append(names, n)
		}
		sort.Strings(names)
		for _, name := range names {
			th, err := ts.Thesaurus(name)
			if err != nil {
				return err
			}
			var sorted []string
			for t := range want.Thes[name] {
				sorted = append(sorted, t)
			}
			sort.Strings(sorted)
			for qi, q := range listings {
				a, err := buildAutomaton(q)
				if err != nil {
					continue
				}
				var exp []string
				for _, t := range sorted {
					if q.HasStart && t < string(q.Start) || q.HasEnd && t >= string(q.End) || !accepts(a, []byte(t)) {
						continue
					}
					exp = append(exp, t)
				}
				var start, end []byte
				if q.HasStart {
					start = []byte(q.Start)
				}
				if q.HasEnd {
					end = []byte(q.End)
				}
				itr := th.AutomatonIterator(a, start, end)
				var got []string
				for len(got) <= len(sorted)+3 {
					e, err := itr.Next()
					if err != nil {
						return fmt.Errorf("thesaurus %q listing %d: %w", name, qi, err)
					}
					if e == nil {
						break
					}
					got = append(got, e.Term)
				}
				if !(len(got) == 0 && len(exp) == 0) && !reflect.DeepEqual(got, exp) {
					v = violation(prop, "thes/listing", "%sthesaurus %q listed with automaton %s(%q,%d) and range [%v %q, %v %q): got %q, model %q", tag, name, q.Auto, q.Arg, q.Dist, q.HasStart, q.Start, q.HasEnd, q.End, got, exp)
					return nil
				}
			}
		}
		return nil
	})
	if err != nil {
		return violation(prop, "thes/listing-error", "%s%v", tag, err)
	}
	return v
}

func genThesCase(t *rapid.T) thesCase {
	o := gen.DefaultSchemaOpts()
	o.Synonyms = 2
	o.Vectors = vectorsMaybe
	o.MaxFields = 3
	s := gen.GenSchema(t, o)
	if rapid.Bool().Draw(t, "smallVocab") {
		s.SynTerms = s.SynTerms[:4]
	}
	if len(s.Fields) > 0 && gen.Chance(t, "thesaurusSharesFieldName", 15) {
		// a synonym collection named like an ordinary field: some documents of the batch carry the
		// name as a text field, others as a synonym field
		s.Thesauri[0] = s.Fields[0].Name
	}
	b := s.GenBatch(t, "b", gen.BatchOpts{MaxDocs: 12, MinDocs: 2, SynPct: 65})
	c := thesCase{Batch: b, ChunkMode: gen.ChunkMode(t, "cm"), Reuse: rapid.Bool().Draw(t, "reuse")}
	n := rapid.IntRange(1, 3).Draw(t, "nExcepts")
	for i := 0; i < n; i++ {
		c.Excepts = append(c.Excepts, gen.GenDrop(t, fmt.Sprintf("ex%d", i), b.NumDocs()))
	}
	// one random subset always
	sub := spec.DropSpec{}
	for d := 0; d < b.NumDocs(); d++ {
		if rapid.Bool().Draw(t, fmt.Sprintf("sub%d", d)) {
			sub.Docs = append(sub.Docs, uint32(d))
		}
	}
	c.Excepts = append(c.Excepts, sub)
	for i, n := 0, rapid.IntRange(1, 4).Draw(t, "nListings"); i < n; i++ {
		c.Listings = append(c.Listings, genThesListing(t, fmt.Sprintf("l%d", i), s.SynTerms))
	}
	return c
}

func sortPairs(p []spec.SynPair) {
	sort.Slice(p, func(i, j int) bool {
		if p[i].Syn != p[j].Syn {
			return p[i].Syn < p[j].Syn
		}
		return p[i].Doc < p[j].Doc
	})
}

// checkThesauri compares every thesaurus lookup of seg with the model.
func checkThesauri(prop string, seg segment.Segment, want *spec.Obs, excepts []spec.DropSpec, reuse bool, tag string) *Violation {
	var v *Violation
	err := drive.Safe(func() error {
		ts, ok := seg.(segment.ThesaurusSegment)
		if !ok {
			return fmt.Errorf("%T is no ThesaurusSegment", seg)
		}
		names := []string{"nosuchthesaurus"}
		for n := range want.Thes {
			names = append(names, n)
		}
		for _, f := range want.Fields {
			if _, isThes := want.Thes[f]; !isThes {
				names = append(names, f) // ordinary fields are no thesauri
			}
		}
		sort.Strings(names)
		var prevList segment.SynonymsList
		var prevItr segment.SynonymsIterator
		for _, name := range names {
			model := want.Thes[name]
			th, err := ts.Thesaurus(name)
			if err != nil {
				return fmt.Errorf("Thesaurus(%q): %w", name, err)
			}
			// term enumeration
			itr := th.AutomatonIterator(nil, nil, nil)
			var terms []string
			for {
				e, err := itr.Next()
				if err != nil {
					return err
				}
				if e == nil {
					break
				}
				terms = append(terms, e.Term)
			}
			var wantTerms []string
			for t := range model {
				wantTerms = append(wantTerms, t)
			}
			sort.Strings(wantTerms)
			if !reflect.DeepEqual(terms, wantTerms) {
				v = violation(prop, "thes/terms", "%sthesaurus %q lists terms %q, model %q", tag, name, terms, wantTerms)
				return nil
			}
			probe := append([]string{"nosuchterm", ""}, wantTerms...)
			for _, term := range probe {
				in, err := th.Contains([]byte(term))
				if err != nil {
					return err
				}
				if _, ok := model[term]; ok != in {
					v = violation(prop, "thes/contains", "%sthesaurus %q Contains(%q)=%v, model %v", tag, name, term, in, ok)
					return nil
				}
				for ei, ex := range append([]spec.DropSpec{{Nil: true}}, excepts...) {
					bm := drive.Bitmap(ex)
					var pre segment.SynonymsList
					if reuse {
						pre = prevList
					}
					sl, err := th.SynonymsList([]byte(term), bm, pre)
					if err != nil {
						return fmt.Errorf("SynonymsList(%q,%q): %w", name, term, err)
					}
					var preI segment.SynonymsIterator
					if reuse {
						preI = prevItr
					}
					si := sl.Iterator(preI)
					var got []spec.SynPair
					for {
						s, err := si.Next()
						if err != nil {
							return fmt.Errorf("synonyms iteration (%q,%q): %w", name, term, err)
						}
						if s == nil {
							break
						}
						got = append(got, spec.SynPair{Syn: s.Term(), Doc: s.Number()})
						if len(got) > 10000 {
							break
						}
					}
					prevList, prevItr = sl, si
					var exp []spec.SynPair
					dropped := map[uint32]bool{}
					if !ex.Nil {
						for _, d := range ex.Docs {
							dropped[d] = true
						}
					}
					for _, p := range model[term] {
						if !dropped[p.Doc] {
							exp = append(exp, p)
						}
					}
					sortPairs(got)
					sortPairs(exp)
					if len(got) == 0 && len(exp) == 0 {
						continue
					}
					if !reflect.DeepEqual(got, exp) {
						v = violation(prop, "thes/synonyms", "%sthesaurus %q term %q exclusion #%d %v reuse=%v: got %v, model %v", tag, name, term, ei, ex, reuse, got, exp)
						return nil
					}
					if ei == 0 && len(exp) >= 2 {
						// two iterators asked of ONE list without preallocation: the first is read
						// once, the second is drained, the first continues - each yields the whole set
						l2, err := th.SynonymsList([]byte(term), bm, nil)
						if err != nil {
							return err
						}
						ia := l2.Iterator(nil)
						var gotA, gotB []spec.SynPair
						if s1, err := ia.Next(); err != nil {
							return err
						} else if s1 != nil {
							gotA = append(gotA, spec.SynPair{Syn: s1.Term(), Doc: s1.Number()})
						}
						ib := l2.Iterator(nil)
						for _, w := range []struct {
							it  segment.SynonymsIterator
							out *[]spec.SynPair
						}{{ib, &gotB}, {ia, &gotA}} {
							for len(*w.out) <= 10000 {
								s2, err := w.it.Next()
								if err != nil {
									return err
								}
								if s2 == nil {
									break
								}
								*w.out = append(*w.out, spec.SynPair{Syn: s2.Term(), Doc: s2.Number()})
							}
						}
						sortPairs(gotA)
						sortPairs(gotB)
						if !reflect.DeepEqual(gotA, exp) || !reflect.DeepEqual(gotB, exp) {
							v = violation(prop, "thes/two-iterators-of-one-list", "%sthesaurus %q term %q: two iterators of one list (first read once, second drained, first continued) gave %v and %v, model %v", tag, name, term, gotA, gotB, exp)
							return nil
						}
					}
				}
			}
			// recycling callers: an iterator obtained from an EMPTY lookup (the shared empty
			// iterator) is passed back as preallocation for a non-empty list which is then
			// only partly drained; empty lookups afterwards must still be empty
			if reuse && len(wantTerms) > 0 {
				unknown := []byte("\x03nosuchterm\x03")
				el, err := th.SynonymsList(unknown, nil, nil)
				if err != nil {
					return err
				}
				it0 := el.Iterator(nil)
				if s0, _ := it0.Next(); s0 != nil {
					v = violation(prop, "thes/unknown-term-nonempty", "%sthesaurus %q: unknown term yields synonym %q", tag, name, s0.Term())
					return nil
				}
				known := wantTerms[len(wantTerms)-1]
				kl, err := th.SynonymsList([]byte(known), nil, nil)
				if err != nil {
					return err
				}
				it1 := kl.Iterator(it0)
				first, err := it1.Next() // partial drain
				if err != nil {
					return err
				}
				if first == nil {
					v = violation(prop, "thes/synonyms", "%sthesaurus %q term %q: recycled iterator yields nothing, model %v", tag, name, known, model[known])
					return nil
				}
				el2, err := th.SynonymsList(unknown, nil, nil)
				if err != nil {
					return err
				}
				if s2, _ := el2.Iterator(nil).Next(); s2 != nil {
					v = violation(prop, "thes/empty-lookup-polluted", "%sthesaurus %q: after a recycled, partly drained iterator for term %q an unknown term yields synonym %q (doc %d)", tag, name, known, s2.Term(), s2.Number())
					return nil
				}
				if other, err := ts.Thesaurus("nosuchthesaurus"); err == nil {
					ol, err := other.SynonymsList([]byte(known), nil, nil)
					if err != nil {
						return err
					}
					if s3, _ := ol.Iterator(nil).Next(); s3 != nil {
						v = violation(prop, "thes/empty-lookup-polluted", "%san unknown thesaurus yields synonym %q after a recycled, partly drained iterator", tag, s3.Term())
						return nil
					}
				}
				for { // drain it1 so later checks start clean
					x, err := it1.Next()
					if err != nil || x == nil {
						break
					}
				}
			}
			// callers may keep ONE key buffer and overwrite it in place between lookups: a lookup must
			// not depend on the bytes a previous lookup was given (same handle, same buffer, another
			// term of the same length - known or unknown)
			if model != nil {
				scratch := make([]byte, 0, 64)
				for _, first := range wantTerms {
					others := append([]string{}, wantTerms...)
					if len(first) > 0 {
						unk := []byte(first)
						unk[len(unk)-1] ^= 0x55
						others = append(others, string(unk))
					}
					for _, second := range others {
						if len(second) != len(first) || second == first {
							continue
						}
						scratch = append(scratch[:0], first...)
						l1, err := th.SynonymsList(scratch, nil, nil)
						if err != nil {
							return err
						}
						n1 := 0
						for it := l1.Iterator(nil); ; n1++ {
							if x, err := it.Next(); err != nil || x == nil {
								break
							}
						}
						if n1 != len(model[first]) {
							v = violation(prop, "thes/pairs", "%sthesaurus %q term %q: %d pairs, model %d", tag, name, first, n1, len(model[first]))
							return nil
						}
						scratch = append(scratch[:0], second...)
						l2, err := th.SynonymsList(scratch, nil, nil)
						if err != nil {
							return err
						}
						var got []spec.SynPair
						for it := l2.Iterator(nil); ; {
							x, err := it.Next()
							if err != nil {
								return err
							}
							if x == nil {
								break
							}
							got = append(got, spec.SynPair{Syn: x.Term(), Doc: x.Number()})
						}
						wantPairs := append([]spec.SynPair(nil), model[second]...)
						sortPairs(got)
						sortPairs(wantPairs)
						if !(len(got) == 0 && len(wantPairs) == 0) && !reflect.DeepEqual(got, wantPairs) {
							v = violation(prop, "thes/key-buffer-reuse", "%sthesaurus %q: after looking up %q, the same key buffer was overwritten with %q and looked up again: got %v, model %v", tag, name, first, second, got, wantPairs)
							return nil
						}
					}
				}
			}
			// synonym fields contribute nothing to the ordinary dictionaries
			if model != nil {
				d, err := seg.Dictionary(name)
				if err != nil {
					return err
				}
				dterms, _, err := drive.DictTerms(d)
				if err != nil {
					return err
				}
				// (when ordinary text fields of the batch carry the same name, exactly their terms)
				var wt []string
				for t := range want.Index[name] {
					wt = append(wt, t)
				}
				sort.Strings(wt)
				if !(len(dterms) == 0 && len(wt) == 0) && !reflect.DeepEqual(dterms, wt) {
					v = violation(prop, "thes/leaks-into-dictionary", "%sDictionary(%q), the name of a synonym field, has terms %q; the ordinary fields of that name have %q", tag, name, dterms, wt)
					return nil
				}
			}
		}
		return nil
	})
	if err != nil {
		return violation(prop, "thes/error", "%s%v", tag, err)
	}
	return v
}

// twinBatch is the batch with every synonym string replaced by another string of the same length
// (same shape and, when the sections are written in the same order, the same offsets - other content).
func twinBatch(b *spec.BatchSpec) *spec.BatchSpec {
	nb := &spec.BatchSpec{Wide: b.Wide, VecWide: b.VecWide, SynWide: b.SynWide}
	for _, d := range b.Docs {
		nd := d
		nd.Fields = nil
		for _, f := range d.Fields {
			nf := f
			if f.Kind == spec.KindSyn {
				nf.Syn = nil
				for _, def := range f.Syn {
					nd2 := spec.SynDef{Term: def.Term}
					for _, x := range def.Syns {
						y := []byte(x)
						if len(y) > 0 {
							y[len(y)-1] ^= 0x01
						}
						nd2.Syns = append(nd2.Syns, spec.B(y))
					}
					nf.Syn = append(nf.Syn, nd2)
				}
			}
			nd.Fields = append(nd.Fields, nf)
		}
		nb.Docs = append(nb.Docs, nd)
	}
	return nb
}

// checkListAcrossSegments looks every term up in segment A and passes the resulting list as
// preallocation for the same term in segment B (a reader walking the segments of a snapshot does
// that); B's answer must be B's.
func checkListAcrossSegments(prop string, a, b segment.Segment, wantB *spec.Obs) *Violation {
	var v *Violation
	err := drive.Safe(func() error {
		ta, tb := a.(segment.ThesaurusSegment), b.(segment.ThesaurusSegment)
		var names []string
		for n := range wantB.Thes {
			names = append(names, n)
		}
		sort.Strings(names)
		for _, name := range names {
			tha, err := ta.Thesaurus(name)
			if err != nil {
				return err
			}
			thb, err := tb.Thesaurus(name)
			if err != nil {
				return err
			}
			var terms []string
			for t := range wantB.Thes[name] {
				terms = append(terms, t)
			}
			sort.Strings(terms)
			for _, term := range terms {
				la, err := tha.SynonymsList([]byte(term), nil, nil)
				if err != nil {
					return err
				}
				if x, _ := la.Iterator(nil).Next(); x == nil {
					continue
				}
				lb, err := thb.SynonymsList([]byte(term), nil, la)
				if err != nil {
					return err
				}
				var got []spec.SynPair
				for it := lb.Iterator(nil); ; {
					x, err := it.Next()
					if err != nil {
						return err
					}
					if x == nil {
						break
					}
					got = append(got, spec.SynPair{Syn: x.Term(), Doc: x.Number()})
				}
				wp := append([]spec.SynPair(nil), wantB.Thes[name][term]...)
				sortPairs(got)
				sortPairs(wp)
				if !reflect.DeepEqual(got, wp) {
					v = violation(prop, "thes/list-recycled-across-segments", "thesaurus %q term %q looked up with a list recycled from the same lookup in another segment of the same shape: got %v, model %v", name, term, got, wp)
					return nil
				}
			}
		}
		return nil
	})
	if err != nil {
		return violation(prop, "thes/error", "%v", err)
	}
	return v
}

func runThesCase(c thesCase) *Violation {
	const prop = "C12"
	want := spec.Expect(c.Batch)
	if len(want.Thes) > 0 && c.Batch.SynWide == nil {
		tw := twinBatch(c.Batch)
		sa, ca, v := openVariant(prop, c.Batch, c.ChunkMode, false)
		if v != nil {
			return v
		}
		sb, cb, v := openVariant(prop, tw, c.ChunkMode, false)
		if v != nil {
			ca()
			return v
		}
		v = checkListAcrossSegments(prop, sa, sb, spec.Expect(tw))
		ca()
		cb()
		if v != nil {
			return v
		}
	}
	for _, mmap := range []bool{false, true} {
		seg, closeFn, v := openVariant(prop, c.Batch, c.ChunkMode, mmap)
		if v != nil {
			return v
		}
		tag := "in-memory: "
		if mmap {
			tag = "re-opened: "
		}
		got, err := drive.Observe(seg)
		if err != nil {
			closeFn()
			return violation(prop, "observe/error", "%s%v", tag, err)
		}
		if d := spec.Diff(want, got, spec.DiffOpts{SkipStored: true, SkipDV: true}); d != "" {
			closeFn()
			return violation(prop, "thes/observation", "%s%s", tag, d)
		}
		v = checkThesauri(prop, seg, want, c.Excepts, c.Reuse, tag)
		if v == nil {
			v = checkThesaurusListings(prop, seg, want, c.Listings, tag)
		}
		closeFn()
		if v != nil {
			return v
		}
	}
	return nil
}

var _ = roaring.New

var c12 = Check[thesCase]{
	Property: "C12", Stage: "thesaurus",
	Gen: genThesCase, Run: runThesCase,
	Classify: func(c thesCase) (bool, []string) {
		want := spec.Expect(c.Batch)
		var cl []string
		nt := false
		for _, terms := range want.Thes {
			for _, pairs := range terms {
				docs := map[uint32]bool{}
				for _, p := range pairs {
					docs[p.Doc] = true
				}
				if len(docs) >= 2 {
					cl = append(cl, "term-defined-by-several-docs")
					for _, ex := range c.Excepts {
						hit := 0
						for _, d := range ex.Docs {
							if docs[d] {
								hit++
							}
						}
						if !ex.Nil && hit > 0 && hit < len(docs) {
							nt = true
						}
					}
				}
			}
		}
		if len(want.Thes) >= 2 {
			cl = append(cl, "several-thesauri")
		}
		if len(want.Thes) == 0 {
			cl = append(cl, "no-synonym-docs")
		}
		if c.Reuse {
			cl = append(cl, "prealloc-reuse")
		}
		for _, q := range c.Listings {
			if q.Auto != "nil" && (q.HasStart || q.HasEnd) {
				cl = append(cl, "listing-with-automaton-and-range")
			}
		}
		for th := range want.Thes {
			if _, ok := want.Index[th]; ok {
				cl = append(cl, "thesaurus-named-like-a-text-field")
			}
		}
		return nt, dedup(cl)
	},
}

func init() { c12.register() }

func TestC12(t *testing.T) { c12.Rapid(t) }
