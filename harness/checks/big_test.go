package checks

import (
	"fmt"
	"os"
	"testing"

	"verifharness/spec"
	"verifharness/stats"
)

// Segments with more than 65536 documents: document numbers cross the 16-bit
// container boundary of the postings bitmaps, doc-value chunks go beyond 64,
// and lists have dozens of 1024-hit chunks. Deterministic scenarios (the
// sizes are the point), checked with the same runners as the generated cases.

func bigWide(n int, seedish int) *spec.BatchSpec {
	return &spec.BatchSpec{Wide: &spec.WideSpec{N: n, Period: 3 + seedish%5, Every: 2 + seedish%3, Locs: seedish%2 == 0, DV: true, Stored: seedish%3 == 0, Gap: 7}}
}

func reportBig(t *testing.T, col *stats.Collector, prop, stage string, cs any, v *Violation) {
	if v == nil {
		return
	}
	col.Freeze()
	path := writeReplay(prop, stage, cs, v)
	fmt.Printf("VIOLATION-DETAIL property=%s stage=%s signature=%s replay=%s\n%s\n", prop, stage, v.Signature, path, v.Message)
	t.FailNow()
}

func bigSizes() []int {
	if os.Getenv("VERIF_TIER") == "thorough" {
		return []int{65535, 65536, 65537, 70000, 131073}
	}
	return []int{65537}
}

// bigSizesC01: the quick tier also builds one batch whose dense list spans two bitmap containers of
// more than 4096 documents each (serialized bitmap >= 16 KiB, posting-detail offsets beyond 2 MiB:
// every length field of a postings header then needs 3..4 bytes).
func bigSizesC01() []int {
	if os.Getenv("VERIF_TIER") == "thorough" {
		return bigSizes()
	}
	return []int{65537, 76000}
}

func TestC01Big(t *testing.T) {
	col := stats.New("C01", "build")
	defer col.Write()
	{
		c := buildCase{Batch: manyFieldsComposite(), ChunkMode: 0}
		col.CaseHash(stats.HashJSON("many-fields-composite"), true, []string{"140-fields+composite"}, func() any { return "4 documents x 140 fields + composite _all naming fields with ids around 128" })
		reportBig(t, col, "C01", "build", c, safeRun(c01, c))
	}
	for i, n := range bigSizesC01() {
		for _, cm := range []uint32{0, 1024} {
			if n == 76000 && cm != 0 {
				continue
			}
			seedish := i
			if n == 76000 {
				seedish = 0 // with locations
			}
			c := buildCase{Batch: bigWide(n, seedish), ChunkMode: cm}
			col.CaseHash(stats.HashJSON(c), true, []string{"segment>65536-docs"}, func() any { return sampleOf(c) })
			reportBig(t, col, "C01", "build", c, safeRun(c01, c))
		}
	}
}

// manyFieldsComposite: 4 documents x 140 fields with one distinct location each, plus a composite
// field "_all" (low field id) whose tokens carry the locations of all of them, naming source
// fields with ids on both sides of 128; the term "x" occurs in every document of fields f139 and _all.
func manyFieldsComposite() *spec.BatchSpec {
	b := &spec.BatchSpec{}
	for d := 0; d < 4; d++ {
		doc := spec.DocSpec{ID: spec.B(fmt.Sprintf("m%d", d))}
		comp := spec.FieldSpec{Name: "_all", Type: 'c'}
		x := spec.TokenSpec{Term: "x"}
		for k := 0; k < 140; k++ {
			name := fmt.Sprintf("f%03d", k)
			loc := spec.LocSpec{Pos: 1 + d + k%3, Start: k, End: k + 2 + d}
			doc.Fields = append(doc.Fields, spec.FieldSpec{Name: name, Type: 't', Len: 1, Tokens: []spec.TokenSpec{{Term: "x", Freq: 1, Locs: []spec.LocSpec{loc}}}})
			if k == 3 || k >= 126 {
				loc.Field = name
				x.Locs = append(x.Locs, loc)
				x.Freq++
				comp.Len++
			}
		}
		comp.Tokens = []spec.TokenSpec{x}
		doc.Composite = []spec.FieldSpec{comp}
		b.Docs = append(b.Docs, doc)
	}
	return b
}

func TestC06Big(t *testing.T) {
	col := stats.New("C06", "merge-index")
	defer col.Write()
	for i, n := range bigSizes() {
		var drop spec.DropSpec
		for d := 0; d < n; d += 9 {
			drop.Docs = append(drop.Docs, uint32(d))
		}
		for _, d := range []uint32{65535, 65536, uint32(n - 1)} {
			if int(d) < n && int(d)%9 != 0 { // deletion bitmaps only hold existing documents, each once
				drop.Docs = append(drop.Docs, d)
			}
		}
		p := &spec.MergePlan{ChunkMode: 1026, Children: []spec.MergePlan{
			{Leaf: bigWide(n, i), Mmap: true},
			{Leaf: &spec.BatchSpec{Wide: &spec.WideSpec{N: 1100, Period: 2, Every: 0, DV: true}}},
		}, Drops: []spec.DropSpec{drop, {Nil: true}}}
		p.Children[1].Leaf.Wide.Locs = p.Children[0].Leaf.Wide.Locs
		c := planCase{Plan: p}
		col.CaseHash(stats.HashJSON(c), true, []string{"merge-of-segment>65536-docs"}, func() any { return sampleOf(c) })
		reportBig(t, col, "C06", "merge-index", c, safeRun(c06, c))
	}
}

func TestC07Big(t *testing.T) {
	col := stats.New("C07", "large")
	defer col.Write()
	n := 76000 // two bitmap containers of > 4096 hits each: the serialized bitmap exceeds 16 KiB
	provs, cms := []int{1, 2}, []uint32{1026}
	if os.Getenv("VERIF_TIER") == "thorough" {
		provs, cms = []int{0, 1, 2}, []uint32{1026, 1024, 64}
	}
	for i, prov := range provs {
		for _, cm := range cms {
			for _, ex := range []spec.DropSpec{{Nil: true}, {Docs: []uint32{0, 65535, 65536, 65537}}, func() spec.DropSpec {
				var d spec.DropSpec
				for k := 1; k < n; k += 5 {
					d.Docs = append(d.Docs, uint32(k))
				}
				return d
			}()} {
				c := bigIterCase{Wide: *bigWide(n, i).Wide, ChunkMode: cm, Provenance: prov, Term: "all", Except: ex, Flags: 2}
				c.Script = []iterCall{{}, {Adv: true, Target: 65000}, {}, {Adv: true, Target: 520}, {}, {}, {Adv: true, Target: 1}, {}, {Adv: true, Target: 4000}, {}, {Adv: true, Target: 100000}, {}}
				sc := c
				sc.Except = spec.DropSpec{Nil: ex.Nil, Docs: ex.Docs[:min(len(ex.Docs), 6)]}
				col.CaseHash(stats.HashJSON([]any{prov, cm, len(ex.Docs)}), true, []string{"list>65536-docs"}, func() any { return sampleOf(sc) })
				reportBig(t, col, "C07", "large", c, safeRun(c07big, c))
			}
		}
	}
}

// Deterministic merge scenarios around the per-term chunk size of modes
// 1025/1026: the writer must derive it anew for every term of every field,
// from that term's surviving cardinality. A dense term (> 1024 hits) is the
// last term of one field; the next field's first term is the same bytes, or
// the empty term, with a few hits spread over the whole merged segment.
func c06FixedPlans() []planCase {
	var out []planCase
	for _, cm := range []uint32{1025, 1026, 0} {
		for _, zterm := range []string{"all", ""} {
			for _, remerge := range []bool{false, true} {
				wide := spec.MergePlan{Leaf: &spec.BatchSpec{Wide: &spec.WideSpec{N: 1100, Locs: true, DV: true}}, Mmap: true}
				small := func(label string) spec.MergePlan {
					b := &spec.BatchSpec{}
					for i := 0; i < 3; i++ {
						f := spec.FieldSpec{Name: spec.WideFieldName, Type: 't', DV: true, Len: 1, Tokens: []spec.TokenSpec{{Term: "all", Freq: 1, Locs: []spec.LocSpec{{Pos: 1, Start: 0, End: 3}}}}}
						zt := spec.TokenSpec{Term: spec.B(zterm), Freq: 1 + i%3}
						for j := 0; j < zt.Freq; j++ {
							zt.Locs = append(zt.Locs, spec.LocSpec{Pos: j + 1, Start: j, End: j + 1})
						}
						z := spec.FieldSpec{Name: "zf", Type: 't', Len: zt.Freq, Tokens: []spec.TokenSpec{zt}}
						b.Docs = append(b.Docs, spec.DocSpec{ID: spec.B(fmt.Sprintf("%s%d", label, i)), Fields: []spec.FieldSpec{f, z}})
					}
					return spec.MergePlan{Leaf: b}
				}
				p := &spec.MergePlan{ChunkMode: cm, Children: []spec.MergePlan{small("s"), wide, small("t")},
					Drops: []spec.DropSpec{{Nil: true}, {Docs: []uint32{5, 6}}, {}}}
				if remerge {
					p = &spec.MergePlan{ChunkMode: cm, Children: []spec.MergePlan{*p}, Drops: []spec.DropSpec{{Docs: []uint32{1}}}}
				}
				out = append(out, planCase{Plan: p})
			}
		}
		// the dense term is absent from the first input (which has the field), and the dense
		// input's deletions take the surviving cardinality from above 1024 to below it
		for _, remerge := range []bool{false, true} {
			first := &spec.BatchSpec{}
			for i := 0; i < 5; i++ {
				first.Docs = append(first.Docs, spec.DocSpec{ID: spec.B(fmt.Sprintf("f%d", i)), Fields: []spec.FieldSpec{{Name: spec.WideFieldName, Type: 't', DV: true, Len: 1,
					Tokens: []spec.TokenSpec{{Term: "other", Freq: 1, Locs: []spec.LocSpec{{Pos: 1, Start: 0, End: 5}}}}}}})
			}
			var drop spec.DropSpec
			for d := 0; d < 1100; d += 9 {
				drop.Docs = append(drop.Docs, uint32(d))
			}
			p := &spec.MergePlan{ChunkMode: cm, Children: []spec.MergePlan{{Leaf: first},
				{Leaf: &spec.BatchSpec{Wide: &spec.WideSpec{N: 1100, Period: 2, Locs: true, DV: true}}, Mmap: true}},
				Drops: []spec.DropSpec{{}, drop}}
			if remerge {
				p = &spec.MergePlan{ChunkMode: cm, Children: []spec.MergePlan{*p}, Drops: []spec.DropSpec{{Nil: true}}}
			}
			out = append(out, planCase{Plan: p})
		}
	}
	// an empty input first, then a dense input nearly all of whose documents are deleted, then a
	// small one: per-input arrays (dictionaries, deletion bitmaps) of the inputs that HAVE the field
	// are shorter than the input list
	for _, cm := range []uint32{1026, 1025} {
		var drop spec.DropSpec
		for d := 0; d < 1100; d++ {
			if d != 3 && d != 500 && d != 1099 {
				drop.Docs = append(drop.Docs, uint32(d))
			}
		}
		one := &spec.BatchSpec{Docs: []spec.DocSpec{{ID: "one", Fields: []spec.FieldSpec{{Name: spec.WideFieldName, Type: 't', DV: true, Len: 1,
			Tokens: []spec.TokenSpec{{Term: "all", Freq: 1, Locs: []spec.LocSpec{{Pos: 1, Start: 0, End: 3}}}}}}}}}
		out = append(out, planCase{Plan: &spec.MergePlan{ChunkMode: cm, Children: []spec.MergePlan{{Leaf: &spec.BatchSpec{}},
			{Leaf: &spec.BatchSpec{Wide: &spec.WideSpec{N: 1100, Locs: true, DV: true}}, Mmap: true}, {Leaf: one}},
			Drops: []spec.DropSpec{{Nil: true}, drop, {}}}})
		// ... and with a single survivor in the whole merge
		drop1 := spec.DropSpec{Docs: append(append([]uint32(nil), drop.Docs...), 500, 1099)}
		out = append(out, planCase{Plan: &spec.MergePlan{ChunkMode: cm, Children: []spec.MergePlan{{Leaf: &spec.BatchSpec{}},
			{Leaf: &spec.BatchSpec{Wide: &spec.WideSpec{N: 1100, Locs: true, DV: true}}, Mmap: true}},
			Drops: []spec.DropSpec{{Nil: true}, drop1}}})
	}
	// a term that is a single-hit dictionary entry in a merged input (one document, frequency 1, no
	// locations), whose document is deleted by the next merge while 1023 documents of another
	// input carry the term: the surviving cardinality sits one below a chunk-count step
	for _, cm := range []uint32{1026, 1025} {
		mkdoc := func(id, term string) spec.DocSpec {
			return spec.DocSpec{ID: spec.B(id), Fields: []spec.FieldSpec{{Name: spec.WideFieldName, Type: 't', Len: 1, Tokens: []spec.TokenSpec{{Term: spec.B(term), Freq: 1}}}}}
		}
		n := 1023
		if cm == 1025 {
			n = 1024
		}
		gen1 := spec.MergePlan{ChunkMode: cm, Children: []spec.MergePlan{{Leaf: &spec.BatchSpec{Docs: []spec.DocSpec{mkdoc("h0", "all")}}}, {Leaf: &spec.BatchSpec{Docs: []spec.DocSpec{mkdoc("h1", "other")}}}},
			Drops: []spec.DropSpec{{Nil: true}, {Nil: true}}}
		out = append(out, planCase{Plan: &spec.MergePlan{ChunkMode: cm, Children: []spec.MergePlan{gen1, {Leaf: &spec.BatchSpec{Wide: &spec.WideSpec{N: n}}}},
			Drops: []spec.DropSpec{{Docs: []uint32{0}}, {Nil: true}}}})
	}
	// the first input's field list is a strict prefix of two lists that diverge afterwards
	// ([_id] / [_id a] , [_id a b] , [_id a c]): the merged numbering differs from every input's
	for _, firstEmpty := range []bool{true, false} {
		mk := func(id string, fields ...string) spec.DocSpec {
			d := spec.DocSpec{ID: spec.B(id)}
			for i, f := range fields {
				d.Fields = append(d.Fields, spec.FieldSpec{Name: f, Type: 't', Stored: true, Value: []byte(f + id), DV: true, Len: 2,
					Tokens: []spec.TokenSpec{{Term: spec.B("t" + f), Freq: 2, Locs: []spec.LocSpec{{Pos: 1 + i, Start: i, End: i + 2}, {Pos: 5, Start: 9, End: 11}}}}})
			}
			return d
		}
		first := &spec.BatchSpec{}
		if !firstEmpty {
			first.Docs = []spec.DocSpec{mk("p0", "a")}
		}
		out = append(out, planCase{Plan: &spec.MergePlan{Children: []spec.MergePlan{{Leaf: first},
			{Leaf: &spec.BatchSpec{Docs: []spec.DocSpec{mk("q0", "a", "b"), mk("q1", "a", "b")}}, Mmap: true},
			{Leaf: &spec.BatchSpec{Docs: []spec.DocSpec{mk("r0", "a", "c"), mk("r1", "a", "c")}}}},
			Drops: []spec.DropSpec{{Nil: true}, {Nil: true}, {}}}})
	}
	// a hit whose encoded locations exceed 127 bytes (40 occurrences in one document), followed by
	// ordinary hits in the same chunk; identical field lists, so posting details are copied byte-wise
	{
		mk := func(id string, n int) spec.DocSpec {
			tok := spec.TokenSpec{Term: "x", Freq: n}
			for j := 0; j < n; j++ {
				tok.Locs = append(tok.Locs, spec.LocSpec{Pos: j + 1, Start: 2 * j, End: 2*j + 1})
			}
			return spec.DocSpec{ID: spec.B(id), Fields: []spec.FieldSpec{{Name: "body", Type: 't', Len: n, Tokens: []spec.TokenSpec{tok}}}}
		}
		p := &spec.MergePlan{Children: []spec.MergePlan{{Leaf: &spec.BatchSpec{Docs: []spec.DocSpec{mk("a", 40), mk("b", 1)}}}, {Leaf: &spec.BatchSpec{Docs: []spec.DocSpec{mk("c", 1), mk("d", 30)}}, Mmap: true}},
			Drops: []spec.DropSpec{{Nil: true}, {Nil: true}}}
		out = append(out, planCase{Plan: p}, planCase{Plan: &spec.MergePlan{Children: []spec.MergePlan{*p}, Drops: []spec.DropSpec{{Nil: true}}}})
	}
	// 140 fields with locations, merged by re-encoding (the second input has one more field): field
	// ids cross the 127/128 varint boundary inside the location records
	many := func(label string, extra bool) spec.MergePlan {
		b := &spec.BatchSpec{}
		for d := 0; d < 2; d++ {
			doc := spec.DocSpec{ID: spec.B(fmt.Sprintf("%s%d", label, d))}
			for k := 0; k < 140; k++ {
				term := spec.B(fmt.Sprintf("t%03d", k))
				doc.Fields = append(doc.Fields, spec.FieldSpec{Name: fmt.Sprintf("f%03d", k), Type: 't', DV: k%7 == 0, Len: 2,
					Tokens: []spec.TokenSpec{{Term: term, Freq: 1, Locs: []spec.LocSpec{{Pos: 1 + d, Start: k, End: k + 4}}}, {Term: "shared", Freq: 1}}})
			}
			if extra {
				doc.Fields = append(doc.Fields, spec.FieldSpec{Name: "zextra", Type: 't', Len: 1, Tokens: []spec.TokenSpec{{Term: "z", Freq: 1}}})
			}
			b.Docs = append(b.Docs, doc)
		}
		return spec.MergePlan{Leaf: b, Mmap: extra}
	}
	out = append(out, planCase{Plan: &spec.MergePlan{Children: []spec.MergePlan{many("m", false), many("n", true)}, Drops: []spec.DropSpec{{Nil: true}, {Docs: []uint32{1}}}}})
	return out
}

func TestC06Fixed(t *testing.T) {
	col := stats.New("C06", "merge-index")
	defer col.Write()
	for _, c := range c06FixedPlans() {
		col.CaseHash(stats.HashJSON(c), true, []string{"dense-last-term-then-sparse-first-term"}, func() any { return sampleOf(c) })
		reportBig(t, col, "C06", "merge-index", c, safeRun(c06, c))
	}
}

// The same deterministic merge scenarios, checked for numbering, stored data and field lists.
func TestC05Fixed(t *testing.T) {
	col := stats.New("C05", "merge-stored")
	defer col.Write()
	for _, c := range c06FixedPlans() {
		col.CaseHash(stats.HashJSON(c), true, []string{"fixed-merge-scenarios"}, func() any { return sampleOf(c) })
		reportBig(t, col, "C05", "merge-stored", c, safeRun(c05, c))
	}
}
