package checks

import (
	"encoding/json"
	"fmt"
	"os"
	"path/filepath"
	"sort"
	"strings"
	"testing"

	"pgregory.net/rapid"

	"verifharness/drive"
	"verifharness/gen"
	"verifharness/indep"
	"verifharness/spec"
	"verifharness/stats"
)

// C09 — the v16 on-disk layout is stable in both directions.

// indepObs converts the independent reader's output into an observation.
func indepObs(f *indep.File) *spec.Obs {
	o := &spec.Obs{
		Count: f.NumDocs,
		Index: map[string]map[string][]spec.Hit{},
		DV:    map[string]map[uint64][]string{},
		Thes:  map[string]map[string][]spec.SynPair{},
	}
	for _, fi := range f.Fields {
		o.Fields = append(o.Fields, fi.Name)
		for _, t := range fi.Terms {
			var hits []spec.Hit
			for _, h := range t.Hits {
				sh := spec.Hit{Doc: h.Doc, Freq: h.Freq}
				if h.Freq > 0 && h.HasNorm {
					sh.Norm = spec.NormOf(h.NormBits)
				}
				for _, l := range h.Locs {
					sh.Locs = append(sh.Locs, spec.Loc{Field: l.Field, Pos: l.Pos, Start: l.Start, End: l.End, AP: l.AP})
				}
				hits = append(hits, sh)
			}
			if o.Index[fi.Name] == nil {
				o.Index[fi.Name] = map[string][]spec.Hit{}
			}
			o.Index[fi.Name][string(t.Term)] = hits
		}
		if fi.HasDocValues {
			o.DVFields = append(o.DVFields, fi.Name)
			for doc, terms := range fi.DocValues {
				for _, t := range terms {
					if o.DV[fi.Name] == nil {
						o.DV[fi.Name] = map[uint64][]string{}
					}
					o.DV[fi.Name][doc] = append(o.DV[fi.Name][doc], string(t))
				}
			}
		}
		if fi.HasThesaurus {
			for _, tt := range fi.Thesaurus {
				for _, p := range tt.Pairs {
					if o.Thes[fi.Name] == nil {
						o.Thes[fi.Name] = map[string][]spec.SynPair{}
					}
					o.Thes[fi.Name][string(tt.Term)] = append(o.Thes[fi.Name][string(tt.Term)], spec.SynPair{Syn: p.Syn, Doc: p.Doc})
				}
			}
		}
	}
	for _, st := range f.Stored {
		var vals []spec.StoredVal
		for _, v := range st {
			vals = append(vals, spec.StoredVal{Field: v.Field, Typ: v.Typ, Val: append([]byte{}, v.Value...), AP: v.AP})
		}
		o.Stored = append(o.Stored, vals)
	}
	o.Normalize()
	return o
}

// checkFileIndependently decodes a file with the independent reader and compares it with the model.
func checkFileIndependently(prop, tag, path string, want *spec.Obs, chunkMode uint32, fieldsAlt [][]string) *Violation {
	data, err := os.ReadFile(path)
	if err != nil {
		return violation(prop, "indep/no-file", "%s: %v", tag, err)
	}
	f, err := indep.Decode(data)
	if err != nil {
		return violation(prop, "indep/decode-error", "%s: a reader written from the documented layout cannot decode the file: %v", tag, err)
	}
	if !f.CRCOK {
		return violation(prop, "indep/crc", "%s: footer CRC does not match the preceding bytes", tag)
	}
	if f.ChunkMode != effMode(chunkMode) {
		return violation(prop, "indep/chunkmode", "%s: footer chunk mode %d, want %d", tag, f.ChunkMode, effMode(chunkMode))
	}
	got := indepObs(f)
	opts := spec.DiffOpts{DVFieldsSub: true}
	if len(fieldsAlt) > 0 {
		opts.FieldsAnyOf = fieldsAlt
	}
	if d := spec.Diff(want, got, opts); d != "" {
		return violation(prop, "indep/mismatch", "%s: decoded with the independent reader: %s", tag, d)
	}
	if v := checkVectorEnvelope(prop, tag, f, want); v != nil {
		return v
	}
	return nil
}

func genLayoutCase(t *rapid.T) planCase {
	return genPlanCase(t, planGenOpts{synonyms: 1, vectors: vectorsMaybe, chunkModes: true, forceDV: true, wide: true})
}

func runLayoutCase(c planCase) *Violation {
	const prop = "C09"
	var res *drive.PlanResult
	err := drive.Safe(func() error {
		var e error
		res, e = drive.RunPlan(c.Plan)
		return e
	})
	if err != nil {
		return violation(prop, "plan/error", "executing the plan failed: %v", err)
	}
	defer res.Close()
	// every merge output
	for ni, node := range res.Nodes {
		r := spec.Resolve(node.Plan)
		want := spec.ExpectResolved(r)
		alts := [][]string{r.Fields, r.FieldsAlt}
		if r.ZeroSurvivors {
			alts = [][]string{nil, r.UnionFields, r.FieldsAlt}
		}
		if v := checkFileIndependently(prop, fmt.Sprintf("merge output %d/%d", ni+1, len(res.Nodes)), node.Path, want, node.Plan.ChunkMode, alts); v != nil {
			return v
		}
	}
	// every leaf, persisted
	var v *Violation
	li := 0
	walkPlan(c.Plan, func(p *spec.MergePlan) {
		if v != nil || !p.IsLeaf() {
			return
		}
		li++
		if li > 3 && p.Leaf.Wide == nil {
			return // bound the work per case: first three leaves (and any wide one)
		}
		seg, _, err := drive.Build(p.Leaf, p.ChunkMode)
		if err != nil {
			v = violation(prop, "build/error", "%v", err)
			return
		}
		path, err := drive.Persist(seg, "c09leaf")
		seg.Close()
		defer removeFile(path)
		if err != nil {
			v = violation(prop, "persist/error", "%v", err)
			return
		}
		want := spec.Expect(p.Leaf)
		v = checkFileIndependently(prop, fmt.Sprintf("persisted build %d", li), path, want, p.ChunkMode, nil)
	})
	return v
}

var c09 = Check[planCase]{
	Property: "C09", Stage: "forward",
	Gen: genLayoutCase, Run: runLayoutCase,
	Classify: func(c planCase) (bool, []string) {
		cl, _, _ := classifyPlan(c.Plan)
		r := spec.Resolve(c.Plan)
		o := spec.ExpectResolved(r)
		multi := false
		for _, terms := range o.Index {
			for _, hits := range terms {
				if len(hits) >= 2 {
					multi = true
				}
			}
		}
		if len(o.DV) > 0 {
			cl = append(cl, "dv")
		}
		if len(o.Thes) > 0 {
			cl = append(cl, "thesaurus")
		}
		if len(o.Vec) > 0 {
			cl = append(cl, "vector-fields")
		}
		return len(o.Fields) >= 2 && (multi || len(o.DV) > 0), cl
	},
}

// forward-wide: the targeted wide-merge generator of C06 (cardinalities on and around
// multiples of 1024), decoded by the independent reader.
var c09wide = Check[planCase]{
	Property: "C09", Stage: "forward-wide",
	Gen: genWideMergeCase, Run: runLayoutCase,
	Classify: func(c planCase) (bool, []string) { return c06wide.Classify(c) },
}

func init() {
	c09.register()
	c09wide.register()
}

func TestC09(t *testing.T) { c09.Rapid(t) }

func TestC09Wide(t *testing.T) { c09wide.Rapid(t) }

// Deterministic scenarios shared with C06/C08: merges (and re-merges) in which a term of more
// than 1024 documents is directly followed by a sparse first term of the next field, decoded
// by the independent reader.
func TestC09Fixed(t *testing.T) {
	col := stats.New("C09", "forward-wide")
	defer col.Write()
	for _, c := range c06FixedPlans() {
		col.CaseHash(stats.HashJSON(c), true, []string{"dense-last-term-then-sparse-first-term"}, func() any { return sampleOf(c) })
		reportBig(t, col, "C09", "forward-wide", c, safeRun(c09wide, c))
	}
}

// ---------------------------------------------------------------------------
// frozen corpus (backward half)

type corpusEntry struct {
	Name string          `json:"name"`
	Plan *spec.MergePlan `json:"plan"` // a leaf plan = a plain build
	Obs  *spec.Obs       `json:"obs"`  // what the pinned release's reader answered for the file it wrote
	// NoIndep marks a file the pinned release wrote in a shape the documented
	// layout does not allow (a repaired defect); it must still open with
	// unchanged answers but is not decoded independently.
	NoIndep string `json:"noIndep,omitempty"`
}

func corpusDir() string {
	d := os.Getenv("VERIF_CORPUS")
	if d == "" {
		d = "/verif/corpus"
	}
	return filepath.Join(d, "v16")
}

// fixedCorpusPlans are hand-picked plans covering every section type and the
// listed chunk modes; rapid-generated ones are added by the freeze run.
func fixedCorpusPlans() []*spec.MergePlan {
	var out []*spec.MergePlan
	// empty segment
	out = append(out, &spec.MergePlan{Leaf: &spec.BatchSpec{}, Mmap: true})
	// wide batches in the multi-chunk modes
	for _, m := range []uint32{1, 3, 1024, 1025, 1026} {
		w := &spec.WideSpec{N: 1100, Period: 7, Every: 2, Locs: m == 1026 || m == 3, DV: m != 1, Stored: m == 3, Gap: 5}
		if m < 1024 {
			w.N = 150 // chunk sizes 1 and 3 are multi-chunk already
		}
		out = append(out, &spec.MergePlan{Leaf: &spec.BatchSpec{Wide: w}, Mmap: true, ChunkMode: m})
	}
	// merge of two wide batches (1-hit entries for the _id terms, > 1024 lists re-encoded)
	out = append(out, &spec.MergePlan{ChunkMode: 1026, Children: []spec.MergePlan{
		{Leaf: &spec.BatchSpec{Wide: &spec.WideSpec{N: 1025, Period: 2, Every: 3, Locs: true, DV: true}}, Mmap: true, ChunkMode: 1026},
		{Leaf: &spec.BatchSpec{Wide: &spec.WideSpec{N: 1023, Period: 1000, Every: 0, DV: true}}, ChunkMode: 1025},
	}, Drops: []spec.DropSpec{{Docs: []uint32{0, 5, 1024}}, {Nil: true}}})
	return out
}

// TestC09Freeze writes the frozen corpus. It is run ONCE against the pinned
// release (see DESIGN.md §C09); checks never regenerate the corpus.
func TestC09Freeze(t *testing.T) {
	dir := os.Getenv("VERIF_FREEZE_DIR")
	if dir == "" {
		t.Skip("VERIF_FREEZE_DIR not set")
	}
	os.MkdirAll(dir, 0o755)
	plans := fixedCorpusPlans()
	var generated []*spec.MergePlan
	rapid.Check(t, func(rt *rapid.T) {
		c := genPlanCase(rt, planGenOpts{synonyms: 1, chunkModes: true, forceDV: true})
		if spec.Resolve(c.Plan).ZeroSurvivors {
			return
		}
		hasZS := false
		walkPlan(c.Plan, func(p *spec.MergePlan) {
			if !p.IsLeaf() && spec.Resolve(p).ZeroSurvivors {
				hasZS = true
			}
		})
		if hasZS {
			return // the pinned release writes unusable files for zero-survivor merges (repaired defect)
		}
		generated = append(generated, c.Plan)
	})
	// also plain builds with big stored values and thesauri
	rapid.Check(t, func(rt *rapid.T) {
		o := gen.DefaultSchemaOpts()
		o.Synonyms = 2
		o.ForceStored = true
		o.ForceDV = true
		s := gen.GenSchema(rt, o)
		s.BigValues = len(generated)%40 == 0
		b := s.GenBatch(rt, "b", gen.BatchOpts{MaxDocs: 10, MinDocs: 2})
		generated = append(generated, &spec.MergePlan{Leaf: b, Mmap: true, ChunkMode: gen.ChunkMode(rt, "cm")})
	})
	// keep a spread: every 7th generated plan, at most 34
	for i := 0; i < len(generated) && len(plans) < 42; i += 7 {
		plans = append(plans, generated[i])
	}
	n := 0
	for _, p := range plans {
		res, err := drive.RunPlan(p)
		if err != nil {
			t.Fatalf("freeze: plan failed: %v", err)
		}
		path := res.Path
		tmp := ""
		if path == "" { // in-memory leaf: persist it
			tmp, err = drive.Persist(res.Seg, "freeze")
			if err != nil {
				t.Fatalf("freeze: persist: %v", err)
			}
			path = tmp
		}
		seg, err := drive.Open(path)
		if err != nil {
			t.Fatalf("freeze: open: %v", err)
		}
		got, err := drive.Observe(seg)
		seg.Close()
		if err != nil {
			t.Fatalf("freeze: observe: %v", err)
		}
		r := spec.Resolve(p)
		want := spec.ExpectResolved(r)
		if d := spec.Diff(want, got, spec.DiffOpts{DVFieldsSub: true}); d != "" {
			t.Fatalf("freeze: pinned release disagrees with the model: %s", d)
		}
		noIndep := ""
		if v := checkFileIndependently("C09", "freeze", path, want, p.ChunkMode, nil); v != nil {
			if !strings.Contains(v.Message, "synonym table entries do not fit") {
				t.Fatalf("freeze: independent reader disagrees: %s", v.Message)
			}
			noIndep = "pinned release wrote a thesaurus block without NST (repaired defect): " + v.Signature
		}
		data, _ := os.ReadFile(path)
		name := fmt.Sprintf("f%02d", n)
		n++
		if err := os.WriteFile(filepath.Join(dir, name+".zap"), data, 0o644); err != nil {
			t.Fatal(err)
		}
		eb, _ := json.Marshal(corpusEntry{Name: name, Plan: p, Obs: got, NoIndep: noIndep})
		if err := os.WriteFile(filepath.Join(dir, name+".json"), eb, 0o644); err != nil {
			t.Fatal(err)
		}
		res.Close()
		removeFile(tmp)
	}
	fmt.Printf("froze %d files into %s\n", n, dir)
}

func runCorpusFile(dir, name string) *Violation {
	const prop = "C09"
	eb, err := os.ReadFile(filepath.Join(dir, name+".json"))
	if err != nil {
		return violation(prop, "corpus/missing-spec", "%v", err)
	}
	var e corpusEntry
	if err := json.Unmarshal(eb, &e); err != nil {
		return violation(prop, "corpus/bad-spec", "%s: %v", name, err)
	}
	e.Obs.Normalize()
	path := filepath.Join(dir, name+".zap")
	var got *spec.Obs
	err = drive.Safe(func() error {
		seg, err := drive.Open(path)
		if err != nil {
			return fmt.Errorf("Open: %w", err)
		}
		defer seg.Close()
		got, err = drive.Observe(seg)
		return err
	})
	if err != nil {
		return violation(prop, "corpus/open-error", "frozen file %s (written by the pinned release) no longer opens/reads: %v", name, err)
	}
	if d := spec.Diff(e.Obs, got, spec.DiffOpts{}); d != "" {
		return violation(prop, "corpus/answers-changed", "frozen file %s answers differently than when the pinned release wrote it: %s", name, d)
	}
	want := spec.ExpectResolved(spec.Resolve(e.Plan))
	if d := spec.Diff(want, got, spec.DiffOpts{DVFieldsSub: true}); d != "" {
		return violation(prop, "corpus/model-mismatch", "frozen file %s: %s", name, d)
	}
	if e.NoIndep != "" {
		return nil
	}
	return checkFileIndependently(prop, "frozen file "+name, path, want, e.Plan.ChunkMode, nil)
}

func TestC09Corpus(t *testing.T) {
	const prop = "C09"
	col := stats.New(prop, "corpus")
	defer col.Write()
	dir := corpusDir()
	files, _ := filepath.Glob(filepath.Join(dir, "*.zap"))
	sort.Strings(files)
	if len(files) == 0 {
		t.Fatalf("no frozen corpus in %s", dir)
	}
	for _, f := range files {
		name := strings.TrimSuffix(filepath.Base(f), ".zap")
		st, _ := os.Stat(f)
		col.CaseHash(stats.HashJSON(name), true, []string{"frozen-file"}, func() any {
			return map[string]any{"frozen_file": name + ".zap", "bytes": st.Size()}
		})
		if v := runCorpusFile(dir, name); v != nil {
			col.Freeze()
			path := writeReplay(prop, "corpus", map[string]string{"name": name}, v)
			fmt.Printf("VIOLATION-DETAIL property=%s stage=corpus signature=%s replay=%s\n%s\n", prop, v.Signature, path, v.Message)
			t.FailNow()
		}
	}
	col.SetExhaustive(true)
	col.SetExtra("frozen_files", len(files))
}

func init() {
	registry["C09/corpus"] = func(raw json.RawMessage) *Violation {
		var m map[string]string
		if err := json.Unmarshal(raw, &m); err != nil {
			return violation("C09", "replay/bad-case-file", "%v", err)
		}
		return runCorpusFile(corpusDir(), m["name"])
	}
}
