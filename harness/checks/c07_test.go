package checks

import (
	"encoding/json"
	"fmt"
	"os"
	"sort"
	"strconv"
	"testing"

	"github.com/RoaringBitmap/roaring/v2"
	segment "github.com/blevesearch/scorch_segment_api/v2"
	"pgregory.net/rapid"

	"verifharness/drive"
	"verifharness/gen"
	"verifharness/spec"
	"verifharness/stats"
)

// C07 — postings iteration honours Next/Advance/exclusion/reuse for every call sequence.

// ---------------------------------------------------------------------------
// reference iterator

type refIter struct {
	hits []spec.Hit
	idx  int
}

func (r *refIter) next() *spec.Hit {
	if r.idx >= len(r.hits) {
		return nil
	}
	h := &r.hits[r.idx]
	r.idx++
	return h
}

func (r *refIter) advance(t uint64) *spec.Hit {
	for r.idx < len(r.hits) && r.hits[r.idx].Doc < t {
		r.idx++
	}
	return r.next()
}

func filterHits(hits []spec.Hit, excluded func(uint64) bool) []spec.Hit {
	var out []spec.Hit
	for _, h := range hits {
		if !excluded(h.Doc) {
			out = append(out, h)
		}
	}
	return out
}

// the first three are the combinations bleve's searchers use; the other five complete the cube
var flagSets = [][3]bool{{false, false, false}, {true, true, false}, {true, true, true},
	{false, false, true}, {true, false, false}, {false, true, false}, {true, false, true}, {false, true, true}}

// compareHit checks a returned posting against the model under a flag set.
func compareHit(p segment.Posting, want *spec.Hit, flags [3]bool) string {
	if p == nil && want == nil {
		return ""
	}
	if p == nil {
		return fmt.Sprintf("got nil, model doc %d", want.Doc)
	}
	if want == nil {
		return fmt.Sprintf("got doc %d, model nil", p.Number())
	}
	if p.Number() != want.Doc {
		return fmt.Sprintf("got doc %d, model doc %d", p.Number(), want.Doc)
	}
	// only the details that were asked for are compared
	if flags[0] && p.Frequency() != want.Freq {
		return fmt.Sprintf("doc %d: frequency %d, model %d", want.Doc, p.Frequency(), want.Freq)
	}
	if flags[1] && want.Freq > 0 && p.Norm() != want.Norm {
		return fmt.Sprintf("doc %d: norm %v, model %v", want.Doc, p.Norm(), want.Norm)
	}
	if flags[2] {
		got := drive.CopyHit(p)
		w := got
		w.Doc, w.Locs = want.Doc, want.Locs
		if d := spec.DiffHits([]spec.Hit{w}, []spec.Hit{got}); d != "" {
			return d
		}
	} else if len(p.Locations()) != 0 {
		return fmt.Sprintf("doc %d: %d locations returned although none were requested", want.Doc, len(p.Locations()))
	}
	return ""
}

// describedSet is what ActualBitmap / DocNum1Hit say about an iterator.
func describedSet(itr segment.PostingsIterator) ([]uint64, bool) {
	o, ok := itr.(segment.OptimizablePostingsIterator)
	if !ok {
		return nil, false
	}
	if d, is := o.DocNum1Hit(); is {
		return []uint64{d}, true
	}
	var out []uint64
	if bm := o.ActualBitmap(); bm != nil {
		it := bm.Iterator()
		for it.HasNext() {
			out = append(out, uint64(it.Next()))
		}
	}
	return out, true
}

func hitDocsOf(h []spec.Hit) []uint64 {
	out := make([]uint64, 0, len(h))
	for i := range h {
		out = append(out, h[i].Doc)
	}
	return out
}

func sameU64(a, b []uint64) bool {
	if len(a) != len(b) {
		return false
	}
	for i := range a {
		if a[i] != b[i] {
			return false
		}
	}
	return true
}

// ---------------------------------------------------------------------------
// stage 1: bounded-exhaustive enumeration

// enumBatch: N documents; field "x": term t<P> in doc d iff d in P, frequency
// 1+((P+d)%3) with that many locations; field "y": same sets, frequency 1 and
// no locations (singletons become 1-hit entries once merged); field "z": same
// sets, frequency/norm disabled (frequency 0), one location in the documents
// where P+d is even - so neighbouring hits differ in whether locations follow.
func enumBatch(n int) *spec.BatchSpec {
	b := &spec.BatchSpec{}
	for d := 0; d < n; d++ {
		doc := spec.DocSpec{ID: spec.B(fmt.Sprintf("e%d", d))}
		fx := spec.FieldSpec{Name: "x", Type: 't'}
		fy := spec.FieldSpec{Name: "y", Type: 't'}
		fz := spec.FieldSpec{Name: "z", Type: 't', Len: 1}
		for p := 1; p < 1<<n; p++ {
			if p&(1<<d) == 0 {
				continue
			}
			term := spec.B(fmt.Sprintf("t%03d", p))
			freq := 1 + (p+d)%3
			tx := spec.TokenSpec{Term: term, Freq: freq}
			for j := 0; j < freq; j++ {
				tx.Locs = append(tx.Locs, spec.LocSpec{Pos: p + j + 1, Start: d*10 + j, End: d*10 + j + 3, AP: []uint64{uint64(d), uint64(j)}[:1+j%2]})
			}
			fx.Tokens = append(fx.Tokens, tx)
			fx.Len += freq
			fy.Tokens = append(fy.Tokens, spec.TokenSpec{Term: term, Freq: 1})
			fy.Len++
			tz := spec.TokenSpec{Term: term}
			if (p+d)%2 == 0 {
				tz.Locs = []spec.LocSpec{{Pos: p + 1, Start: d, End: d + 2}}
			}
			fz.Tokens = append(fz.Tokens, tz)
		}
		doc.Fields = []spec.FieldSpec{fx, fy, fz}
		b.Docs = append(b.Docs, doc)
	}
	return b
}

type iterCall struct {
	Adv    bool   `json:"adv,omitempty"`
	Target uint64 `json:"t,omitempty"`
}

// enumPaths enumerates every complete call sequence for a hit list over n docs:
// Next | Advance(t), t in (last, n], until nil is returned, plus one call after nil.
func enumPaths(hitDocs []uint64, n int, visit func(path []iterCall)) {
	var rec func(idx int, last int, path []iterCall, done bool)
	rec = func(idx int, last int, path []iterCall, done bool) {
		if done {
			// one more call after nil: Next and Advance(n)
			visit(append(path, iterCall{}))
			if last < n {
				visit(append(path, iterCall{Adv: true, Target: uint64(n)}))
			}
			return
		}
		// Next
		{
			p := append(append([]iterCall(nil), path...), iterCall{})
			if idx < len(hitDocs) {
				rec(idx+1, int(hitDocs[idx]), p, false)
			} else {
				rec(idx, last, p, true)
			}
		}
		for t := last + 1; t <= n; t++ {
			p := append(append([]iterCall(nil), path...), iterCall{Adv: true, Target: uint64(t)})
			j := idx
			for j < len(hitDocs) && hitDocs[j] < uint64(t) {
				j++
			}
			if j < len(hitDocs) {
				rec(j+1, int(hitDocs[j]), p, false)
			} else {
				rec(j, last, p, true)
			}
		}
	}
	rec(0, -1, nil, false)
}

type enumFail struct {
	N          int        `json:"n"`
	ChunkMode  uint32     `json:"chunkMode"`
	Provenance int        `json:"provenance"`
	Field      string     `json:"field"`
	P          int        `json:"p"`
	E          int        `json:"e"`
	Flags      int        `json:"flags"`
	Path       []iterCall `json:"path"`
}

// runEnumPath executes one call sequence on a fresh iterator; "" if it matches the model.
func runEnumPath(seg segment.Segment, want *spec.Obs, f enumFail) (msg string) {
	err := drive.Safe(func() error {
		term := fmt.Sprintf("t%03d", f.P)
		d, err := seg.Dictionary(f.Field)
		if err != nil {
			return err
		}
		var except *roaring.Bitmap
		if f.E != 0 {
			except = roaring.New()
			for b := 0; b < f.N; b++ {
				if f.E&(1<<b) != 0 {
					except.Add(uint32(b))
				}
			}
		}
		var exceptBefore *roaring.Bitmap
		if except != nil {
			exceptBefore = except.Clone()
			defer func() {
				if msg == "" && !except.Equals(exceptBefore) {
					msg = fmt.Sprintf("the caller's exclusion bitmap changed from %v to %v", exceptBefore, except)
				}
			}()
		}
		pl, err := d.PostingsList([]byte(term), except, nil)
		if err != nil {
			return err
		}
		hits := filterHits(want.Index[f.Field][term], func(doc uint64) bool { return f.E&(1<<doc) != 0 })
		if pl.Count() != uint64(len(hits)) {
			msg = fmt.Sprintf("Count()=%d, model %d", pl.Count(), len(hits))
			return nil
		}
		fl := flagSets[f.Flags]
		itr := pl.Iterator(fl[0], fl[1], fl[2], nil)
		if ds, ok := describedSet(itr); ok && !sameU64(ds, hitDocsOf(hits)) {
			msg = fmt.Sprintf("ActualBitmap/DocNum1Hit describe %v, model %v", ds, hitDocsOf(hits))
			return nil
		}
		ref := &refIter{hits: hits}
		for i, c := range f.Path {
			var p segment.Posting
			var w *spec.Hit
			if c.Adv {
				p, err = itr.Advance(c.Target)
				w = ref.advance(c.Target)
			} else {
				p, err = itr.Next()
				w = ref.next()
			}
			if err != nil {
				return fmt.Errorf("call %d: %w", i, err)
			}
			if d := compareHit(p, w, fl); d != "" {
				msg = fmt.Sprintf("call %d (%+v): %s", i, c, d)
				return nil
			}
		}
		return nil
	})
	if err != nil {
		return err.Error()
	}
	return msg
}

func enumSegments(prop string, n int, chunkMode uint32) (map[int]segment.Segment, *spec.Obs, func(), *Violation) {
	b := enumBatch(n)
	want := spec.Expect(b)
	segs := map[int]segment.Segment{}
	var closers []func()
	closeAll := func() {
		for _, c := range closers {
			c()
		}
	}
	for _, prov := range []int{0, 1, 2} {
		s, c, v := provenanceSegment(prop, b, prov, chunkMode)
		if v != nil {
			closeAll()
			return nil, nil, nil, v
		}
		segs[prov] = s
		closers = append(closers, c)
	}
	return segs, want, closeAll, nil
}

func envInt(name string, def int) int {
	if v := os.Getenv(name); v != "" {
		if n, err := strconv.Atoi(v); err == nil {
			return n
		}
	}
	return def
}

func TestC07Enum(t *testing.T) {
	const prop = "C07"
	col := stats.New(prop, "enum")
	defer col.Write()
	tier := os.Getenv("VERIF_TIER")
	fullN, detailN := 4, 5
	if tier == "thorough" {
		fullN, detailN = 6, 7
	}
	fullN = envInt("VERIF_C07_FULLN", fullN)
	detailN = envInt("VERIF_C07_DETAILN", detailN)
	shard, nshards := envInt("VERIF_SHARD", 0), envInt("VERIF_NSHARDS", 1)
	completed := true
	var sequences, combos int64
	for n := 1; n <= detailN; n++ {
		chunkSizes := []uint32{1, 2, 3, uint32(n)}
		seenCS := map[uint32]bool{}
		for _, cs := range chunkSizes {
			if seenCS[cs] || cs > uint32(n) && cs != 1 {
				continue
			}
			seenCS[cs] = true
			segs, want, closeAll, v := enumSegments(prop, n, cs)
			if v != nil {
				path := writeReplay(prop, "enum", enumFail{N: n, ChunkMode: cs}, v)
				fmt.Printf("VIOLATION-DETAIL property=%s stage=enum signature=%s replay=%s\n%s\n", prop, v.Signature, path, v.Message)
				t.FailNow()
			}
			for p := 1; p < 1<<n; p++ {
				if p%nshards != shard {
					continue
				}
				for e := 0; e < 1<<n; e++ {
					for fi := range flagSets {
						if n > fullN && fi != 2 || n > 3 && fi > 2 {
							continue
						}
						for _, field := range []string{"x", "y", "z"} {
							for prov, seg := range segs {
								term := fmt.Sprintf("t%03d", p)
								hits := filterHits(want.Index[field][term], func(doc uint64) bool { return e&(1<<doc) != 0 })
								combos++
								nontrivialCombo := false
								var nPaths int64
								var fail *enumFail
								var failMsg string
								enumPaths(hitDocsOf(hits), n, func(path []iterCall) {
									if fail != nil {
										return
									}
									nPaths++
									f := enumFail{N: n, ChunkMode: cs, Provenance: prov, Field: field, P: p, E: e, Flags: fi, Path: path}
									if m := runEnumPath(seg, want, f); m != "" {
										ff := f
										ff.Path = append([]iterCall(nil), path...)
										fail, failMsg = &ff, m
									}
								})
								sequences += nPaths
								if len(hits) >= 2 {
									nontrivialCombo = true
								}
								col.CaseHash(stats.HashJSON([]any{n, cs, prov, field, p, e, fi}), nontrivialCombo, nil, func() any {
									return map[string]any{"n": n, "chunkSize": cs, "provenance": prov, "field": field, "P": p, "E": e, "flags": flagSets[fi], "sequences": nPaths}
								})
								if fail != nil {
									v := violation(prop, "enum/sequence-mismatch", "N=%d chunk=%d provenance=%d field=%s P=%b E=%b flags=%v path=%+v: %s", n, cs, prov, field, p, e, flagSets[fi], fail.Path, failMsg)
									col.Freeze()
									path := writeReplay(prop, "enum", fail, v)
									closeAll()
									fmt.Printf("VIOLATION-DETAIL property=%s stage=enum signature=%s replay=%s\n%s\n", prop, v.Signature, path, v.Message)
									t.FailNow()
								}
							}
						}
					}
				}
			}
			closeAll()
		}
	}
	col.SetExhaustive(completed)
	col.SetExtra("sequences_executed", sequences)
	col.SetExtra("combinations", combos)
	col.SetExtra("bound", fmt.Sprintf("every (P,E) over N<=%d documents for all three flag sets and N<=%d for the full-detail flag set; chunk sizes {1,2,3,N}; provenance built/opened/merged; every Next/Advance sequence until nil plus one call after nil (shard %d of %d by P)", fullN, detailN, shard, nshards))
}

func init() {
	registry["C07/enum"] = func(raw json.RawMessage) *Violation {
		var f enumFail
		if err := json.Unmarshal(raw, &f); err != nil {
			return violation("C07", "replay/bad-case-file", "%v", err)
		}
		segs, want, closeAll, v := enumSegments("C07", f.N, f.ChunkMode)
		if v != nil {
			return v
		}
		defer closeAll()
		if m := runEnumPath(segs[f.Provenance], want, f); m != "" {
			return violation("C07", "enum/sequence-mismatch", "%+v: %s", f, m)
		}
		return nil
	}
}

// ---------------------------------------------------------------------------
// stage 2: random larger instances

type bigIterCase struct {
	Wide       spec.WideSpec  `json:"wide"`
	ChunkMode  uint32         `json:"chunkMode"`
	Provenance int            `json:"provenance"`
	Term       string         `json:"term"`
	Except     spec.DropSpec  `json:"except"`
	Flags      int            `json:"flags"`
	Replace    *spec.DropSpec `json:"replace,omitempty"` // docs REMOVED from the actual bitmap before iterating
	Script     []iterCall     `json:"script"`            // Target is a delta beyond the last returned doc for Advance
}

func genBigIterCase(t *rapid.T) bigIterCase {
	c := bigIterCase{Wide: *gen.GenWide(t, "w")}
	if c.Wide.Period == 0 {
		c.Wide.Period = 2
	}
	c.ChunkMode = rapid.SampledFrom([]uint32{1026, 1025, 0, 1024, 100, 1, 7, 512}).Draw(t, "cm")
	c.Provenance = rapid.SampledFrom([]int{0, 1, 2}).Draw(t, "prov")
	terms := []string{"all", "p0", "p1"}
	if c.Wide.Every > 0 {
		terms = append(terms, "e")
	}
	c.Term = rapid.SampledFrom(terms).Draw(t, "term")
	c.Except = gen.GenDrop(t, "ex", c.Wide.N)
	c.Flags = rapid.IntRange(0, 2).Draw(t, "flags")
	if gen.Chance(t, "replace", 30) {
		d := gen.GenDrop(t, "repl", c.Wide.N)
		d.Nil = false
		c.Replace = &d
	}
	n := rapid.IntRange(1, 60).Draw(t, "nCalls")
	for i := 0; i < n; i++ {
		if rapid.Bool().Draw(t, fmt.Sprintf("c%dadv", i)) {
			delta := rapid.SampledFrom([]uint64{0, 1, 2, 5, 100, 511, 512, 1023, 1024, 1025, 3000}).Draw(t, fmt.Sprintf("c%ddelta", i))
			c.Script = append(c.Script, iterCall{Adv: true, Target: delta})
		} else {
			c.Script = append(c.Script, iterCall{})
		}
	}
	return c
}

func dropSet(d spec.DropSpec) map[uint64]bool {
	m := map[uint64]bool{}
	if !d.Nil {
		for _, x := range d.Docs {
			m[uint64(x)] = true
		}
	}
	return m
}

func runBigIterCase(c bigIterCase) *Violation {
	const prop = "C07"
	b := &spec.BatchSpec{Wide: &c.Wide}
	want := spec.Expect(b)
	seg, closeFn, v := provenanceSegment(prop, b, c.Provenance, c.ChunkMode)
	if v != nil {
		return v
	}
	defer closeFn()
	err := drive.Safe(func() error {
		d, err := seg.Dictionary(spec.WideFieldName)
		if err != nil {
			return err
		}
		pl, err := d.PostingsList([]byte(c.Term), drive.Bitmap(c.Except), nil)
		if err != nil {
			return err
		}
		ex := dropSet(c.Except)
		hits := filterHits(want.Index[spec.WideFieldName][c.Term], func(doc uint64) bool { return ex[doc] })
		if pl.Count() != uint64(len(hits)) {
			v = violation(prop, "big/count", "Count()=%d, model %d", pl.Count(), len(hits))
			return nil
		}
		fl := flagSets[c.Flags]
		itr := pl.Iterator(fl[0], fl[1], fl[2], nil)
		ds, ok := describedSet(itr)
		if ok && !sameU64(ds, hitDocsOf(hits)) {
			v = violation(prop, "big/actual-bitmap", "ActualBitmap/DocNum1Hit describe %d docs, model %d", len(ds), len(hits))
			return nil
		}
		if c.Replace != nil {
			o, isOpt := itr.(segment.OptimizablePostingsIterator)
			if isOpt && o.ActualBitmap() != nil {
				rm := dropSet(*c.Replace)
				sub := roaring.New()
				for _, h := range hits {
					if !rm[h.Doc] {
						sub.Add(uint32(h.Doc))
					}
				}
				o.ReplaceActual(sub)
				hits = filterHits(hits, func(doc uint64) bool { return rm[doc] })
				if ds, _ := describedSet(itr); !sameU64(ds, hitDocsOf(hits)) {
					v = violation(prop, "big/replace-actual-bitmap", "after ReplaceActual the iterator describes %d docs, model %d", len(ds), len(hits))
					return nil
				}
			}
		}
		ref := &refIter{hits: hits}
		last := int64(-1)
		for i, call := range c.Script {
			var p segment.Posting
			var w *spec.Hit
			if call.Adv {
				target := uint64(last+1) + call.Target
				p, err = itr.Advance(target)
				w = ref.advance(target)
			} else {
				p, err = itr.Next()
				w = ref.next()
			}
			if err != nil {
				return fmt.Errorf("call %d: %w", i, err)
			}
			if dd := compareHit(p, w, fl); dd != "" {
				v = violation(prop, "big/sequence-mismatch", "call %d (%+v, last=%d): %s", i, call, last, dd)
				return nil
			}
			if w != nil {
				last = int64(w.Doc)
			}
		}
		return nil
	})
	if err != nil {
		return violation(prop, "big/error", "%v", err)
	}
	return v
}

var c07big = Check[bigIterCase]{
	Property: "C07", Stage: "large",
	Gen: genBigIterCase, Run: runBigIterCase,
	Classify: func(c bigIterCase) (bool, []string) {
		var cl []string
		adv := false
		for _, s := range c.Script {
			if s.Adv && s.Target > 0 {
				adv = true
			}
		}
		if c.Replace != nil {
			cl = append(cl, "replace-actual")
		}
		if !c.Except.Nil && len(c.Except.Docs) > 0 {
			cl = append(cl, "exclusion")
		}
		cl = append(cl, fmt.Sprintf("provenance=%d", c.Provenance), "mode="+modeClass(c.ChunkMode), "flags="+fmt.Sprint(c.Flags))
		return adv && c.Wide.N > 1024, cl
	},
}

func TestC07Large(t *testing.T) { c07big.Rapid(t) }

// ---------------------------------------------------------------------------
// stage 3: preallocation-reuse histories

type reuseAction struct {
	Op     string        `json:"op"`              // list iter next advance count replace
	Slot   int           `json:"slot,omitempty"`  // list slot (two lists are alive at the same time)
	ISlot  int           `json:"islot,omitempty"` // iterator slot
	Seg    int           `json:"seg,omitempty"`
	Field  string        `json:"field,omitempty"`
	Term   spec.B        `json:"term,omitempty"`
	Except spec.DropSpec `json:"except,omitempty"`
	Pre    int           `json:"pre,omitempty"` // 0 nil, 1 the object previously in that slot, 2 the shared empty sentinel
	Flags  int           `json:"flags,omitempty"`
	Delta  uint64        `json:"delta,omitempty"`
	Remove []uint32      `json:"remove,omitempty"`
}

type reuseCase struct {
	A, B      *spec.BatchSpec
	MmapA     bool          `json:"mmapA"`
	MergedB   bool          `json:"mergedB"`
	ChunkMode uint32        `json:"chunkMode"`
	Actions   []reuseAction `json:"actions"`
}

func genReuseCase(t *rapid.T) reuseCase {
	o := gen.DefaultSchemaOpts()
	o.MaxFields = 3
	o.NoComposite = true
	s := gen.GenSchema(t, o)
	c := reuseCase{}
	c.A = s.GenBatch(t, "a", gen.BatchOpts{MaxDocs: 10, MinDocs: 2})
	c.B = s.GenBatch(t, "b", gen.BatchOpts{MaxDocs: 10, MinDocs: 1})
	c.MmapA = rapid.Bool().Draw(t, "mmapA")
	c.MergedB = rapid.Bool().Draw(t, "mergedB")
	c.ChunkMode = rapid.SampledFrom([]uint32{0, 1, 2, 3, 1024, 1025}).Draw(t, "cm")
	fields := append(s.FieldNames(), "_id", "nosuchfield")
	terms := append(append([]string{}, s.Terms...), "nosuchterm")
	for _, d := range c.A.Docs {
		terms = append(terms, string(d.ID))
	}
	if gen.Chance(t, "crossTemplate", 35) {
		// two lists alive at once, one iterator object recycled from the first list for the
		// second, then the first list is used again
		pick := func(label string, except spec.DropSpec, slot int) reuseAction {
			seg := rapid.IntRange(0, 1).Draw(t, label+"seg")
			return reuseAction{Op: "list", Slot: slot, Seg: seg, Field: rapid.SampledFrom(fields).Draw(t, label+"field"),
				Term: spec.B(rapid.SampledFrom(terms).Draw(t, label+"term")), Except: except}
		}
		exB := gen.GenDrop(t, "tplEx", c.B.NumDocs())
		if rapid.Bool().Draw(t, "tplExNonNil") {
			exB.Nil = false
		}
		k := rapid.IntRange(0, 1).Draw(t, "tplISlot")
		fl := rapid.IntRange(0, 2).Draw(t, "tplFlags")
		c.Actions = append(c.Actions,
			pick("tplA", spec.DropSpec{Nil: true}, 0),
			reuseAction{Op: "iter", Slot: 0, ISlot: k, Flags: fl},
			reuseAction{Op: "next", ISlot: k},
			pick("tplB", exB, 1),
			reuseAction{Op: "iter", Slot: 1, ISlot: k, Flags: rapid.IntRange(0, 2).Draw(t, "tplFlags2"), Pre: 1},
			reuseAction{Op: "next", ISlot: k},
			reuseAction{Op: "count"},
			reuseAction{Op: "iter", Slot: 0, ISlot: 1 - k, Flags: fl},
			reuseAction{Op: "next", ISlot: 1 - k},
			reuseAction{Op: "next", ISlot: 1 - k},
		)
	}
	n := rapid.IntRange(3, 40).Draw(t, "nActions")
	for i := 0; i < n; i++ {
		al := fmt.Sprintf("a%d", i)
		op := rapid.SampledFrom([]string{"next", "list", "iter", "advance", "next", "count", "replace", "iter", "list", "count"}).Draw(t, al+"op")
		a := reuseAction{Op: op, Slot: rapid.IntRange(0, 1).Draw(t, al+"slot"), ISlot: rapid.IntRange(0, 1).Draw(t, al+"islot")}
		switch op {
		case "list":
			a.Seg = rapid.IntRange(0, 1).Draw(t, al+"seg")
			a.Field = rapid.SampledFrom(fields).Draw(t, al+"field")
			a.Term = spec.B(rapid.SampledFrom(terms).Draw(t, al+"term"))
			nd := c.A.NumDocs()
			if a.Seg == 1 {
				nd = c.B.NumDocs()
			}
			a.Except = gen.GenDrop(t, al+"ex", nd)
			a.Pre = rapid.SampledFrom([]int{1, 0, 2}).Draw(t, al+"pre")
		case "iter":
			a.Flags = rapid.SampledFrom([]int{0, 1, 2, 2, 1, 3, 4, 5, 6, 7}).Draw(t, al+"flags")
			a.Pre = rapid.SampledFrom([]int{1, 0, 2}).Draw(t, al+"pre")
		case "advance":
			a.Delta = uint64(rapid.IntRange(0, 4).Draw(t, al+"delta"))
		case "replace":
			a.Remove = rapid.SliceOfN(rapid.Uint32Range(0, 9), 0, 4).Draw(t, al+"remove")
		}
		c.Actions = append(c.Actions, a)
	}
	return c
}

func runReuseCase(c reuseCase) *Violation {
	const prop = "C07"
	wants := [2]*spec.Obs{spec.Expect(c.A), spec.Expect(c.B)}
	var segs [2]segment.Segment
	sa, ca, v := openVariant(prop, c.A, c.ChunkMode, c.MmapA)
	if v != nil {
		return v
	}
	defer ca()
	segs[0] = sa
	provB := 0
	if c.MergedB {
		provB = 2
	}
	sb, cb, v := provenanceSegment(prop, c.B, provB, c.ChunkMode)
	if v != nil {
		return v
	}
	defer cb()
	segs[1] = sb

	type listSlot struct {
		pl   segment.PostingsList
		hits []spec.Hit
		gen  int // bumped whenever the object in the slot is (re)initialised
		have bool
	}
	type iterSlot struct {
		it      segment.PostingsIterator
		ref     *refIter
		flags   [3]bool
		srcSlot int
		srcGen  int
		fresh   bool
		last    int64
	}
	err := drive.Safe(func() error {
		var lists [2]listSlot
		var iters [2]iterSlot
		valid := func(k int) bool {
			is := &iters[k]
			return is.it != nil && is.ref != nil && lists[is.srcSlot].gen == is.srcGen
		}
		for i, a := range c.Actions {
			where := fmt.Sprintf("action %d %+v", i, a)
			ls := &lists[a.Slot&1]
			is := &iters[a.ISlot&1]
			switch a.Op {
			case "list":
				d, err := segs[a.Seg].Dictionary(a.Field)
				if err != nil {
					return fmt.Errorf("%s: %w", where, err)
				}
				var pre segment.PostingsList
				switch a.Pre {
				case 1:
					if ls.have {
						pre = ls.pl // recycled: iterators reading through it become invalid (gen bump below)
					}
				case 2:
					pre, _ = d.PostingsList([]byte("\x02absent\x02"), nil, nil)
				}
				pl, err := d.PostingsList([]byte(a.Term), drive.Bitmap(a.Except), pre)
				if err != nil {
					return fmt.Errorf("%s: %w", where, err)
				}
				ex := dropSet(a.Except)
				ls.hits = filterHits(wants[a.Seg].Index[a.Field][string(a.Term)], func(doc uint64) bool { return ex[doc] })
				ls.pl, ls.have = pl, true
				ls.gen++
				if pl.Count() != uint64(len(ls.hits)) {
					v = violation(prop, "reuse/count", "%s: Count()=%d, model %d", where, pl.Count(), len(ls.hits))
					return nil
				}
			case "count":
				// every live list must keep describing its own term, whatever happened to other objects
				for k := range lists {
					if lists[k].have && lists[k].pl.Count() != uint64(len(lists[k].hits)) {
						v = violation(prop, "reuse/count", "%s: list in slot %d: Count()=%d, model %d", where, k, lists[k].pl.Count(), len(lists[k].hits))
						return nil
					}
				}
			case "iter":
				if !ls.have {
					continue
				}
				var pre segment.PostingsIterator
				switch a.Pre {
				case 1:
					if is.it != nil {
						pre = is.it // whatever iterator was in this slot, possibly made from the other list
					}
				case 2:
					d, _ := segs[0].Dictionary("nosuchfield")
					el, _ := d.PostingsList([]byte("x"), nil, nil)
					pre = el.Iterator(true, true, true, nil)
				}
				is.flags = flagSets[a.Flags]
				is.it = ls.pl.Iterator(is.flags[0], is.flags[1], is.flags[2], pre)
				is.ref = &refIter{hits: append([]spec.Hit(nil), ls.hits...)}
				is.srcSlot, is.srcGen, is.fresh, is.last = a.Slot&1, ls.gen, true, -1
				if ds, ok := describedSet(is.it); ok && !sameU64(ds, hitDocsOf(is.ref.hits)) {
					v = violation(prop, "reuse/actual-bitmap", "%s: ActualBitmap/DocNum1Hit describe %v, model %v", where, ds, hitDocsOf(is.ref.hits))
					return nil
				}
			case "replace":
				if !valid(a.ISlot&1) || !is.fresh {
					continue
				}
				o, ok := is.it.(segment.OptimizablePostingsIterator)
				if !ok || o.ActualBitmap() == nil {
					continue
				}
				rm := map[uint64]bool{}
				for _, x := range a.Remove {
					rm[uint64(x)] = true
				}
				sub := roaring.New()
				for _, h := range is.ref.hits {
					if !rm[h.Doc] {
						sub.Add(uint32(h.Doc))
					}
				}
				o.ReplaceActual(sub)
				is.ref.hits = filterHits(is.ref.hits, func(doc uint64) bool { return rm[doc] })
			case "next", "advance":
				if !valid(a.ISlot & 1) {
					continue
				}
				is.fresh = false
				var p segment.Posting
				var w *spec.Hit
				var err error
				if a.Op == "advance" {
					target := uint64(is.last+1) + a.Delta
					p, err = is.it.Advance(target)
					w = is.ref.advance(target)
				} else {
					p, err = is.it.Next()
					w = is.ref.next()
				}
				if err != nil {
					return fmt.Errorf("%s: %w", where, err)
				}
				if dd := compareHit(p, w, is.flags); dd != "" {
					v = violation(prop, "reuse/sequence-mismatch", "%s (last=%d): %s", where, is.last, dd)
					return nil
				}
				if w != nil {
					is.last = int64(w.Doc)
				}
			}
		}
		// at the end every live list still describes its own term
		for k := range lists {
			if lists[k].have && lists[k].pl.Count() != uint64(len(lists[k].hits)) {
				v = violation(prop, "reuse/count", "at the end: list in slot %d: Count()=%d, model %d", k, lists[k].pl.Count(), len(lists[k].hits))
				return nil
			}
		}
		return nil
	})
	if err != nil {
		return violation(prop, "reuse/error", "%v", err)
	}
	return v
}

var c07reuse = Check[reuseCase]{
	Property: "C07", Stage: "reuse",
	Gen: genReuseCase, Run: runReuseCase,
	Classify: func(c reuseCase) (bool, []string) {
		var cl []string
		reuseAcross := false
		var prev *reuseAction
		for i := range c.Actions {
			a := &c.Actions[i]
			if a.Op == "list" {
				if a.Pre == 1 && prev != nil && (prev.Seg != a.Seg || prev.Field != a.Field || prev.Term != a.Term) {
					reuseAcross = true
				}
				prev = a
			}
			if a.Op == "iter" && a.Pre == 1 {
				cl = append(cl, "iterator-reuse")
			}
			if a.Op == "iter" && a.Pre == 1 && a.Slot != a.ISlot {
				cl = append(cl, "iterator-recycled-for-the-other-list")
			}
			if a.Op == "replace" {
				cl = append(cl, "replace-actual")
			}
		}
		if reuseAcross {
			cl = append(cl, "list-reuse-across-term/field/segment")
		}
		if c.MergedB {
			cl = append(cl, "merged-segment(1-hit)")
		}
		return reuseAcross, dedup(cl)
	},
}

func TestC07Reuse(t *testing.T) { c07reuse.Rapid(t) }

func init() {
	c07big.register()
	c07reuse.register()
}

var _ = sort.Strings
