//go:build vectors

package checks

import (
	"fmt"
	"testing"

	segment "github.com/blevesearch/scorch_segment_api/v2"
	"pgregory.net/rapid"

	"verifharness/drive"
	"verifharness/gen"
	"verifharness/spec"
	"verifharness/stats"
)

// C14 — vector search returns true scores of live documents, exactly top-k when exact.

type vecQuery struct {
	Field    string        `json:"field"`
	Q        []float32     `json:"q"`
	K        int64         `json:"k"`
	Except   spec.DropSpec `json:"except"`
	Filter   bool          `json:"filter,omitempty"`
	Eligible []uint64      `json:"eligible,omitempty"`
	// OpenFilter: the handle is opened with requiresFiltering although a plain Search is run through it
	OpenFilter bool `json:"openFilter,omitempty"`
}

type vecCase struct {
	Batch     *spec.BatchSpec `json:"batch"`
	ChunkMode uint32          `json:"chunkMode"`
	Queries   []vecQuery      `json:"queries"`
}

// genVecQueries draws queries against the vector fields of a model observation.
func genVecQueries(t *rapid.T, s *gen.Schema, want *spec.Obs, nDocs int, n int) []vecQuery {
	var out []vecQuery
	fields := []string{"nosuchfield"}
	for _, vo := range s.Vecs {
		fields = append(fields, vo.Name, vo.Name, vo.Name)
	}
	if len(s.Fields) > 0 {
		fields = append(fields, s.Fields[0].Name) // a non-vector field
	}
	for i := 0; i < n; i++ {
		ql := fmt.Sprintf("q%d", i)
		q := vecQuery{Field: rapid.SampledFrom(fields).Draw(t, ql+"field")}
		var vo *gen.VecOpt
		for j := range s.Vecs {
			if s.Vecs[j].Name == q.Field {
				vo = &s.Vecs[j]
			}
		}
		nVec := 0
		if vf := want.Vec[q.Field]; vf != nil {
			nVec = len(vf.Entries)
		}
		if vo == nil {
			q.Q = []float32{1, 0}
		} else {
			q.Q = gen.GenVector(t, vo, ql+"v")
			if gen.Chance(t, ql+"wrongDim", 8) {
				q.Q = append(q.Q, 1)
			}
		}
		q.K = rapid.SampledFrom([]int64{1, 2, 3, int64(nVec), int64(nVec) + 3, 5}).Draw(t, ql+"k")
		if q.K == 0 {
			q.K = 1
		}
		if nDocs <= 64 {
			q.Except = gen.GenDrop(t, ql+"ex", nDocs)
		} else if gen.Chance(t, ql+"exBig", 50) {
			q.Except = gen.GenDrop(t, ql+"ex", nDocs)
		} else {
			q.Except = spec.DropSpec{Nil: true}
		}
		if gen.Chance(t, ql+"filter", 45) {
			q.Filter = true
			ex := dropSet(q.Except)
			var live []uint64
			for d := 0; d < nDocs; d++ {
				if !ex[uint64(d)] {
					live = append(live, uint64(d))
				}
			}
			switch rapid.SampledFrom([]string{"lt-half", "gt-half", "all", "single", "empty", "gt-half-prefix", "gt-half-suffix", "single-vector-docs"}).Draw(t, ql+"elig") {
			case "all":
				q.Eligible = live
			case "empty":
			case "single":
				if len(live) > 0 {
					q.Eligible = []uint64{live[rapid.IntRange(0, len(live)-1).Draw(t, ql+"one")]}
				}
			case "lt-half":
				for i, d := range live {
					if i%3 == 0 {
						q.Eligible = append(q.Eligible, d)
					}
				}
			case "gt-half":
				for i, d := range live {
					if i%4 != 1 {
						q.Eligible = append(q.Eligible, d)
					}
				}
			case "gt-half-prefix": // the first three quarters; differs from the other > half shapes
				q.Eligible = append(q.Eligible, live[:len(live)*3/4]...)
			case "gt-half-suffix":
				q.Eligible = append(q.Eligible, live[len(live)/4:]...)
			case "single-vector-docs": // every document with several vectors in the field is ineligible
				perDoc := map[uint64]int{}
				if vf := want.Vec[q.Field]; vf != nil {
					for _, e := range vf.Entries {
						perDoc[e.Doc]++
					}
				}
				for _, d := range live {
					if perDoc[d] <= 1 {
						q.Eligible = append(q.Eligible, d)
					}
				}
			}
		}
		if q.Filter && len(q.Eligible) > 1 && gen.Chance(t, ql+"eligDesc", 30) {
			// the eligible SET is what counts: the list may come in any order
			for i, j := 0, len(q.Eligible)-1; i < j; i, j = i+1, j-1 {
				q.Eligible[i], q.Eligible[j] = q.Eligible[j], q.Eligible[i]
			}
		}
		if !q.Filter && gen.Chance(t, ql+"openFilter", 35) {
			q.OpenFilter = true
		}
		out = append(out, q)
	}
	// one fixed query per case: a filtered search with every document eligible and a query of the
	// wrong dimension (nothing may come back, whatever shortcut full selectivity allows)
	if len(s.Vecs) > 0 && nDocs > 0 {
		vo := s.Vecs[0]
		q := vecQuery{Field: vo.Name, Q: make([]float32, vo.Dim+1), K: 3, Except: spec.DropSpec{Nil: true}, Filter: true}
		q.Q[0] = 1
		for d := 0; d < nDocs; d++ {
			q.Eligible = append(q.Eligible, uint64(d))
		}
		out = append(out, q)
	}
	return out
}

func genVecCase(t *rapid.T) vecCase {
	o := gen.DefaultSchemaOpts()
	o.Vectors = 2
	o.MaxFields = 2
	s := gen.GenSchema(t, o)
	c := vecCase{ChunkMode: rapid.SampledFrom([]uint32{0, 1, 1024, 1025}).Draw(t, "cm")}
	c.Batch = s.GenBatch(t, "b", gen.BatchOpts{MaxDocs: 14, MinDocs: 1})
	if gen.Chance(t, "clustered", 12) {
		vo := s.Vecs[0]
		c.Batch.VecWide = &spec.VecWideSpec{
			N: rapid.SampledFrom([]int{1000, 1040, 1500}).Draw(t, "vwN"), Field: vo.Name, Dim: vo.Dim, Metric: vo.Metric, Opt: vo.Opt,
			Seed: uint32(rapid.IntRange(0, 1000).Draw(t, "vwSeed")), Every: rapid.SampledFrom([]int{0, 7}).Draw(t, "vwEvery"),
		}
		// odd layouts give every third document a second vector in the field
		c.Batch.VecWide.Multi = 3 * int(c.Batch.VecWide.Seed%2)
	}
	want := spec.Expect(c.Batch)
	c.Queries = genVecQueries(t, s, want, c.Batch.NumDocs(), rapid.IntRange(2, 8).Draw(t, "nQueries"))
	if vw := c.Batch.VecWide; vw != nil && vw.Multi > 0 {
		// fixed queries on the clustered index: only the documents with one vector are eligible, and
		// the query IS the second vector of an ineligible document
		vf := want.Vec[vw.Field]
		perDoc := map[uint64]int{}
		for _, e := range vf.Entries {
			perDoc[e.Doc]++
		}
		var elig []uint64
		for d := 0; d < c.Batch.NumDocs(); d++ {
			if perDoc[uint64(d)] <= 1 {
				elig = append(elig, uint64(d))
			}
		}
		added := 0
		for i := len(vf.Entries) - 1; i > 0 && added < 2; i-- {
			if vf.Entries[i].Doc == vf.Entries[i-1].Doc {
				c.Queries = append(c.Queries, vecQuery{Field: vw.Field, Q: append([]float32(nil), vf.Entries[i].Vec...), K: 5,
					Except: spec.DropSpec{Nil: true}, Filter: true, Eligible: elig})
				added++
				i -= len(vf.Entries) / 3
			}
		}
	}
	return c
}

// checkVecQueries runs the queries on seg and validates them; returns the answers for cross-comparison.
func checkVecQueries(prop, where string, seg segment.Segment, want *spec.Obs, queries []vecQuery) ([][]vecPair, *Violation) {
	var answers [][]vecPair
	var v *Violation
	err := drive.Safe(func() error {
		for qi, q := range queries {
			got, err := vecSearchOpen(seg, q.Field, q.Q, q.K, drive.Bitmap(q.Except), q.Filter || q.OpenFilter, q.Filter, q.Eligible)
			if err != nil {
				return fmt.Errorf("query %d: %w", qi, err)
			}
			answers = append(answers, got)
			vf := want.Vec[q.Field]
			desc := fmt.Sprintf("%s: query %d field %q q=%v k=%d except=%v filter=%v eligible=%v", where, qi, q.Field, q.Q, q.K, q.Except.Docs, q.Filter, q.Eligible)
			if vf == nil || len(vf.Entries) == 0 || len(q.Q) != vf.Dim {
				if len(got) != 0 {
					v = violation(prop, "vec/nonempty-for-absent-or-wrong-dim", "%s: expected an empty result, got %v", desc, got)
					return nil
				}
				continue
			}
			ex := dropSet(q.Except)
			elig := map[uint64]bool{}
			for _, d := range q.Eligible {
				elig[d] = true
			}
			live := func(d uint64) bool {
				if ex[d] {
					return false
				}
				return !q.Filter || elig[d]
			}
			if m := vecOracle(vf.Entries, vf.Metric, q.Q, q.K, live, isExact(vf), got); m != "" {
				v = violation(prop, "vec/search-mismatch", "%s: %s", desc, m)
				return nil
			}
		}
		return nil
	})
	if err != nil {
		return nil, violation(prop, "vec/error", "%s: %v", where, err)
	}
	return answers, v
}

// checkVecQueriesSharedHandle runs all queries of one field through ONE handle (opened filtering-
// capable, with the exclusion bitmap of the field's first query), one after the other, and reads
// each result list only after the following search has been issued: what a search returns may
// depend neither on the searches that went through the handle before nor on those after.
func checkVecQueriesSharedHandle(prop, where string, seg segment.Segment, want *spec.Obs, queries []vecQuery) *Violation {
	var v *Violation
	err := drive.Safe(func() error {
		byField := map[string][]int{}
		var fields []string
		for qi, q := range queries {
			if _, ok := byField[q.Field]; !ok {
				fields = append(fields, q.Field)
			}
			byField[q.Field] = append(byField[q.Field], qi)
		}
		for _, f := range fields {
			idx := byField[f]
			vf := want.Vec[f]
			if len(idx) < 2 || vf == nil || len(vf.Entries) == 0 {
				continue
			}
			except := queries[idx[0]].Except
			ex := dropSet(except)
			vi, err := seg.(segment.VectorSegment).InterpretVectorIndex(f, true, drive.Bitmap(except))
			if err != nil {
				if vi != nil {
					vi.Close()
				}
				return fmt.Errorf("InterpretVectorIndex(%q): %w", f, err)
			}
			type pending struct {
				pl   segment.VecPostingsList
				q    vecQuery
				desc string
			}
			var prev *pending
			// an iterator of an earlier, non-empty answer that was read only partly: it is handed back
			// as preallocation for reading the next answer
			var carry segment.VecPostingsIterator
			settle := func(p *pending) error {
				got, err := readVecListWith(p.pl, carry)
				carry = nil
				if err == nil && len(got) > 1 {
					it := p.pl.Iterator(nil)
					if _, e := it.Next(); e == nil {
						carry = it
					}
				}
				if err != nil {
					return fmt.Errorf("%s: %w", p.desc, err)
				}
				if len(p.q.Q) != vf.Dim {
					if len(got) != 0 {
						v = violation(prop, "vec/shared-handle-nonempty-for-wrong-dim", "%s: expected an empty result, got %v", p.desc, got)
					}
					return nil
				}
				elig := map[uint64]bool{}
				for _, d := range p.q.Eligible {
					elig[d] = true
				}
				live := func(d uint64) bool { return !ex[d] && (!p.q.Filter || elig[d]) }
				if m := vecOracle(vf.Entries, vf.Metric, p.q.Q, p.q.K, live, isExact(vf), got); m != "" {
					v = violation(prop, "vec/shared-handle-mismatch", "%s: %s", p.desc, m)
				}
				return nil
			}
			for n, qi := range idx {
				q := queries[qi]
				var eligible []uint64
				for _, d := range q.Eligible {
					if !ex[d] {
						eligible = append(eligible, d) // callers pass eligible documents that are not excluded
					}
				}
				q.Eligible = eligible
				pl, err := startSearch(vi, q.Q, q.K, q.Filter, q.Eligible)
				if err != nil {
					vi.Close()
					return fmt.Errorf("query %d on a shared handle: %w", qi, err)
				}
				cur := &pending{pl: pl, q: q, desc: fmt.Sprintf("%s: search %d of %d on one handle of field %q (query %d q=%v k=%d handle-except=%v filter=%v eligible=%v), read after the next search", where, n+1, len(idx), f, qi, q.Q, q.K, except.Docs, q.Filter, q.Eligible)}
				if prev != nil {
					if err := settle(prev); err != nil || v != nil {
						vi.Close()
						return err
					}
				}
				prev = cur
			}
			if prev != nil {
				if err := settle(prev); err != nil || v != nil {
					vi.Close()
					return err
				}
			}
			vi.Close()
		}
		return nil
	})
	if err != nil {
		return violation(prop, "vec/error", "%s: %v", where, err)
	}
	return v
}

func runVecCase(c vecCase) *Violation {
	const prop = "C14"
	want := spec.Expect(c.Batch)
	fakeReset()
	mem, closeMem, v := openVariant(prop, c.Batch, c.ChunkMode, false)
	if v != nil {
		return v
	}
	defer closeMem()
	// the re-opened copy must hold the same index bytes: persist THIS build
	// (vector ids are random per build, so another build may break ties differently)
	var opened segment.Segment
	var path string
	if err := drive.Safe(func() error {
		var e error
		path, e = drive.Persist(mem, "c14")
		if e != nil {
			return e
		}
		opened, e = drive.Open(path)
		return e
	}); err != nil {
		removeFile(path)
		return violation(prop, "persist-open/error", "%v", err)
	}
	defer func() { opened.Close(); removeFile(path) }()
	for _, s := range []struct {
		name string
		seg  segment.Segment
	}{{"in-memory", mem}, {"re-opened", opened}} {
		stat, err := numVectorsStat(s.seg)
		if err != nil {
			return violation(prop, "vec/error", "%v", err)
		}
		for f, vf := range want.Vec {
			if stat[f] != uint64(len(vf.Entries)) {
				return violation(prop, "vec/num-vectors", "%s: field %q reports num_vectors=%d, %d vectors were indexed", s.name, f, stat[f], len(vf.Entries))
			}
		}
		for f := range stat {
			if want.Vec[f] == nil {
				return violation(prop, "vec/stat-for-field-without-vectors", "%s: num_vectors reported for field %q which has no vectors", s.name, f)
			}
		}
	}
	a, v := checkVecQueries(prop, "in-memory", mem, want, c.Queries)
	if v != nil {
		return v
	}
	b, v := checkVecQueries(prop, "re-opened", opened, want, c.Queries)
	if v != nil {
		return v
	}
	if v := checkVecQueriesSharedHandle(prop, "in-memory", mem, want, c.Queries); v != nil {
		return v
	}
	if v := checkVecQueriesSharedHandle(prop, "re-opened", opened, want, c.Queries); v != nil {
		return v
	}
	for i := range a {
		if fmt.Sprint(a[i]) != fmt.Sprint(b[i]) {
			return violation(prop, "vec/mem-vs-mmap", "query %d %+v: in-memory answer %v, re-opened answer %v", i, c.Queries[i], a[i], b[i])
		}
	}
	if faissMisuse() != "" {
		return violation(prop, "vec/engine-misuse", "%s", faissMisuse())
	}
	return nil
}

var c14 = Check[vecCase]{
	Property: "C14", Stage: "vector-search",
	Gen: genVecCase, Run: runVecCase,
	Classify: func(c vecCase) (bool, []string) {
		want := spec.Expect(c.Batch)
		var cl []string
		nt := false
		if c.Batch.VecWide != nil {
			cl = append(cl, "clustered-index")
		} else {
			cl = append(cl, "exact-index")
		}
		for _, vf := range want.Vec {
			cl = append(cl, "metric="+vf.Metric)
			perDoc := map[uint64]int{}
			for _, e := range vf.Entries {
				perDoc[e.Doc]++
				if perDoc[e.Doc] == 2 {
					cl = append(cl, "multi-vector-doc")
				}
			}
		}
		for _, q := range c.Queries {
			vf := want.Vec[q.Field]
			if vf == nil {
				cl = append(cl, "absent-or-non-vector-field")
				continue
			}
			if len(q.Q) != vf.Dim {
				cl = append(cl, "wrong-dimension")
				continue
			}
			if q.OpenFilter {
				cl = append(cl, "plain-search-on-filtering-handle")
			}
			if q.Filter {
				cl = append(cl, "filtered")
				if len(q.Eligible) == 0 {
					cl = append(cl, "eligible-empty")
				}
			}
			hasEx := !q.Except.Nil && len(q.Except.Docs) > 0
			if hasEx {
				cl = append(cl, "exclusion")
			}
			if len(vf.Entries) >= 3 && q.K < int64(len(vf.Entries)) && (hasEx || q.Filter) {
				nt = true
			}
		}
		return nt, dedup(cl)
	},
}

func init() { c14.register() }

func TestC14(t *testing.T) { c14.Rapid(t) }

// Deterministic case: 150000 documents that all carry the SAME vector. Whatever a build derives
// vector ids from, identical vectors must still be told apart: every one of them is in the index
// and counted (D9: ids with a random 31-bit half collided with probability ~ m^2 / 2^32).
func TestC14Identical(t *testing.T) {
	col := stats.New("C14", "vector-search")
	defer col.Write()
	n := 150000
	c := vecCase{Batch: &spec.BatchSpec{VecWide: &spec.VecWideSpec{N: n, Field: "vec", Dim: 2, Metric: "l2_norm", Opt: "recall", Same: true}}}
	c.Queries = []vecQuery{{Field: "vec", Q: []float32{1, 0}, K: 5, Except: spec.DropSpec{Nil: true}}}
	col.CaseHash(stats.HashJSON("fixed-identical-vectors"), true, []string{"clustered-index", "150000-identical-vectors"}, func() any { return sampleOf(c) })
	reportBig(t, col, "C14", "vector-search", c, safeRun(c14, c))
}
