//go:build !vectors

package checks

import (
	segment "github.com/blevesearch/scorch_segment_api/v2"

	"verifharness/indep"
	"verifharness/spec"
)

// Without the vectors tag no vector fields are generated.
const vectorsMaybe = 0
const vectorsBuild = false

func vectorEquivalence(prop string, b *spec.BatchSpec, want *spec.Obs, mem, opened segment.Segment) *Violation {
	return nil
}

func checkVectorEnvelope(prop, tag string, f *indep.File, want *spec.Obs) *Violation { return nil }

func vectorSegmentCheck(prop string, seg segment.Segment, want *spec.Obs, where string) *Violation {
	return nil
}

func fakeReset()            {}
func fakeLive() int64       { return 0 }
func fakeOnOp(func(string)) {}
func fakeOpCount() int64    { return 0 }
