package checks

import (
	"bufio"
	"encoding/json"
	"fmt"
	"os"
	"path/filepath"
	"regexp"
	"runtime"
	"runtime/debug"
	"strings"
	"testing"
	"time"

	"pgregory.net/rapid"

	"verifharness/drive"
	"verifharness/stats"
)

// Violation is a property violation found by a check. Signature is stable
// (no paths, no random ids) so that rapid's shrinker sees the same failure
// on re-runs and known findings can be matched.
type Violation struct {
	Property  string `json:"property"`
	Signature string `json:"signature"`
	Message   string `json:"message"`
}

func violation(prop, sig, format string, args ...any) *Violation {
	return &Violation{Property: prop, Signature: sig, Message: fmt.Sprintf(format, args...)}
}

type replayFile struct {
	Property  string          `json:"property"`
	Stage     string          `json:"stage"`
	Driver    string          `json:"driver_stage,omitempty"`
	Signature string          `json:"signature"`
	Message   string          `json:"message"`
	Case      json.RawMessage `json:"case"`
}

var registry = map[string]func(json.RawMessage) *Violation{}

var known = loadKnown()

func loadKnown() map[string]string {
	out := map[string]string{}
	path := os.Getenv("VERIF_KNOWN")
	if path == "" {
		return out
	}
	f, err := os.Open(path)
	if err != nil {
		return out
	}
	defer f.Close()
	sc := bufio.NewScanner(f)
	for sc.Scan() {
		line := strings.TrimSpace(sc.Text())
		if !strings.HasPrefix(line, "finding:") {
			continue
		}
		var prop, key string
		rest := strings.Fields(strings.TrimPrefix(line, "finding:"))
		for _, w := range rest {
			if strings.HasPrefix(w, "property=") {
				prop = strings.TrimPrefix(w, "property=")
			}
			if strings.HasPrefix(w, "key=") {
				key = strings.TrimPrefix(w, "key=")
			}
		}
		if prop != "" && key != "" {
			out[prop+" "+key] = line
		}
	}
	return out
}

func isKnown(v *Violation) bool {
	_, ok := known[v.Property+" "+v.Signature]
	return ok
}

// Check couples a case generator with a rapid-free runner.
type Check[C any] struct {
	Property string
	Stage    string
	Gen      func(*rapid.T) C
	Run      func(C) *Violation
	// Classify reports whether the case is non-trivial by the property's rule and its classes.
	Classify func(C) (bool, []string)
	// After (optional) reports classes measured while the case ran.
	After func(C) []string
	// Extra (optional) reports measured counters for the evidence at the end of the run.
	Extra func() map[string]any
}

func (c Check[C]) key() string { return c.Property + "/" + c.Stage }

func (c Check[C]) register() {
	registry[c.key()] = func(raw json.RawMessage) *Violation {
		var cs C
		if err := json.Unmarshal(raw, &cs); err != nil {
			return &Violation{Property: c.Property, Signature: "replay/bad-case-file", Message: err.Error()}
		}
		return safeRun(c, cs)
	}
}

func sampleOf(v any) any {
	b, err := json.Marshal(v)
	if err != nil {
		return fmt.Sprintf("%+v", v)
	}
	if len(b) > 2500 {
		return string(b[:2500]) + fmt.Sprintf("…(truncated, %d bytes)", len(b))
	}
	return json.RawMessage(b)
}

func replayPath(prop, stage string) string {
	dir := os.Getenv("VERIF_REPLAY_DIR")
	if dir == "" {
		dir = os.TempDir()
	}
	shard := os.Getenv("VERIF_SHARD")
	if shard == "" {
		shard = "0"
	}
	return filepath.Join(dir, fmt.Sprintf("%s-%s-shard%s.json", prop, stage, shard))
}

func writeReplay(prop, stage string, cs any, v *Violation) string {
	raw, err := json.Marshal(cs)
	if err != nil {
		raw = []byte(`null`)
	}
	rf := replayFile{Property: prop, Stage: stage, Driver: os.Getenv("VERIF_STAGE_NAME"), Signature: v.Signature, Message: v.Message, Case: raw}
	b, _ := json.MarshalIndent(rf, "", " ")
	path := replayPath(prop, stage)
	_ = os.WriteFile(path, b, 0o644)
	return path
}

// failCase is the single place where a property fails, so that rapid's
// shrinker sees one traceback for every failure of a check.
func failCase(t *rapid.T, v *Violation) {
	t.Fatalf("%s", v.Signature)
}

// safeRun executes Run and converts an uncaught panic (e.g. in a deferred
// Close of the code under test) into a violation with a stable signature.
func safeRun[C any](c Check[C], cs C) (v *Violation) {
	defer watchLocks(c.Property, c.Stage, cs)()
	defer func() {
		if r := recover(); r != nil {
			st := debug.Stack()
			if len(st) > 2500 {
				st = st[:2500]
			}
			v = &Violation{Property: c.Property, Signature: "panic/uncaught", Message: fmt.Sprintf("the code under test panicked: %v\n%s", r, st)}
		}
	}()
	return c.Run(cs)
}

// watchLocks guards a case against lock leaks in the code under test, which show as a hang and
// not as a wrong answer. While the case runs, a watchdog looks at the goroutine dump every 20 s;
// a goroutine that the runtime reports as blocked for at least one minute in a sync.Mutex /
// sync.RWMutex acquisition called from zapx code is a lock that was never released (no zapx
// operation holds a lock that long). That is reported as a violation of the running case and
// the process exits - the stuck goroutine cannot be recovered, so there is no shrinking. A case
// that is merely slow is left to the driver's stage timeout (cannot decide).
func watchLocks(prop, stage string, cs any) (stop func()) {
	done := make(chan struct{})
	go func() {
		tick := time.NewTicker(20 * time.Second)
		defer tick.Stop()
		for {
			select {
			case <-done:
				return
			case <-tick.C:
			}
			if g := leakedLockGoroutine(); g != "" {
				v := &Violation{Property: prop, Signature: "deadlock/lock-never-released", Message: "a goroutine has been blocked for over a minute acquiring a lock inside the code under test (a lock was taken and never released):\n" + g}
				path := writeReplay(prop, stage, cs, v)
				fmt.Printf("VIOLATION-DETAIL property=%s stage=%s signature=%s replay=%s\n%s\n", prop, stage, v.Signature, path, v.Message)
				os.Exit(1)
			}
		}
	}()
	return func() { close(done) }
}

var blockedOnLock = regexp.MustCompile(`^goroutine \d+ \[(sync\.Mutex\.Lock|sync\.RWMutex\.RLock|sync\.RWMutex\.Lock|semacquire), (\d+) minutes\]`)

// leakedLockGoroutine returns the stack of a goroutine blocked >= 1 minute on a lock taken in zapx code ("" if none).
func leakedLockGoroutine() string {
	buf := make([]byte, 4<<20)
	buf = buf[:runtime.Stack(buf, true)]
	for _, g := range strings.Split(string(buf), "\n\n") {
		first, _, _ := strings.Cut(g, "\n")
		if !blockedOnLock.MatchString(first) {
			continue
		}
		lines := strings.Split(g, "\n")
		// the frames right above the sync package must belong to zapx
		for i, l := range lines {
			if strings.HasPrefix(l, "sync.(*") || strings.HasPrefix(l, "sync.runtime_") || strings.HasPrefix(l, "\t") || i == 0 {
				continue
			}
			if strings.HasPrefix(l, "github.com/blevesearch/zapx/v16.") {
				if len(g) > 3000 {
					g = g[:3000]
				}
				return g
			}
			break
		}
	}
	return ""
}

// Rapid runs the check under rapid and writes the collector.
func (c Check[C]) Rapid(t *testing.T) {
	col := stats.New(c.Property, c.Stage)
	defer col.Write()
	var lastPath string
	var last *Violation
	defer func() { // rapid.Check ends the test with Goexit on failure: report from a deferred call
		if c.Extra != nil {
			for k, v := range c.Extra() {
				col.SetExtra(k, v)
			}
		}
		if last != nil {
			fmt.Printf("VIOLATION-DETAIL property=%s stage=%s signature=%s replay=%s\n%s\n", c.Property, c.Stage, last.Signature, lastPath, last.Message)
		}
	}()
	rapid.Check(t, func(rt *rapid.T) {
		cs := c.Gen(rt)
		nt, classes := false, []string(nil)
		if c.Classify != nil {
			nt, classes = c.Classify(cs)
		}
		col.Case(cs, nt, classes, func() any { return sampleOf(cs) })
		v := safeRun(c, cs)
		if v == nil {
			if c.After != nil {
				for _, cl := range c.After(cs) {
					col.Class(cl, 1)
				}
			}
			return
		}
		if isKnown(v) {
			col.KnownHit(v.Signature)
			return
		}
		col.Freeze()
		lastPath = writeReplay(c.Property, c.Stage, cs, v)
		last = v
		failCase(rt, v)
	})
}

// TestReplay re-executes a case file without rapid.
func TestReplay(t *testing.T) {
	path := os.Getenv("VERIF_REPLAY_FILE")
	if path == "" {
		t.Skip("VERIF_REPLAY_FILE not set")
	}
	b, err := os.ReadFile(path)
	if err != nil {
		t.Fatalf("read replay file: %v", err)
	}
	var rf replayFile
	if err := json.Unmarshal(b, &rf); err != nil {
		t.Fatalf("parse replay file: %v", err)
	}
	run := registry[rf.Property+"/"+rf.Stage]
	if run == nil {
		t.Fatalf("no check registered for %s/%s", rf.Property, rf.Stage)
	}
	v := run(rf.Case)
	if v == nil {
		fmt.Printf("REPLAY-OK property=%s stage=%s\n", rf.Property, rf.Stage)
		return
	}
	if isKnown(v) {
		fmt.Printf("REPLAY-KNOWN property=%s signature=%s\n", v.Property, v.Signature)
		return
	}
	fmt.Printf("REPLAY-VIOLATION property=%s stage=%s signature=%s\n%s\n", v.Property, rf.Stage, v.Signature, v.Message)
	t.Fail()
}

// TestVerifChildBuild is the child side of drive.BuildInChild (skipped unless a job is given).
func TestVerifChildBuild(t *testing.T) {
	job := os.Getenv(drive.ChildJobEnv)
	if job == "" {
		t.Skip("no job")
	}
	if err := drive.RunChildJob(job); err != nil {
		t.Fatal(err)
	}
}

func TestMain(m *testing.M) {
	code := m.Run()
	drive.CleanupScratch()
	os.Exit(code)
}
