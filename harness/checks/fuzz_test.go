package checks

import (
	"testing"

	"pgregory.net/rapid"

	"verifharness/stats"
)

// Native coverage-guided fuzzing (thorough tier only) drives the same
// properties through rapid.MakeFuzz: the fuzzer's bytes become rapid's bit
// stream, so every generated case is still a well-formed case of the
// property's domain, and a failing case is written as a JSON case file that
// the driver re-executes through the rapid-free replay path before reporting.

func fuzzProp[C any](c Check[C], col *stats.Collector) func(*rapid.T) {
	return func(rt *rapid.T) {
		cs := c.Gen(rt)
		nt, classes := false, []string(nil)
		if c.Classify != nil {
			nt, classes = c.Classify(cs)
		}
		col.Case(cs, nt, classes, func() any { return sampleOf(cs) })
		v := safeRun(c, cs)
		if v == nil || isKnown(v) {
			return
		}
		writeReplay(c.Property, c.Stage, cs, v)
		failCase(rt, v)
	}
}

// seedCorpus gives the fuzzer long inputs to mutate: rapid reads its draws
// from the input as a stream of 64-bit words and discards a case when the
// stream runs dry, so short inputs only produce invalid cases.
func seedCorpus(f *testing.F) {
	x := uint64(0x9E3779B97F4A7C15)
	for i := 0; i < 24; i++ {
		n := 2048 << (i % 3) // 2, 4, 8 KiB
		b := make([]byte, n)
		for j := range b {
			x ^= x << 13
			x ^= x >> 7
			x ^= x << 17
			switch i % 4 {
			case 0:
				b[j] = byte(x)
			case 1:
				b[j] = byte(x) & 0x0f // small draws
			case 2:
				if j%8 == 0 {
					b[j] = byte(x)
				}
			default:
				b[j] = byte(x >> 32)
			}
		}
		f.Add(b)
	}
	f.Add(make([]byte, 4096))
	ff := make([]byte, 4096)
	for i := range ff {
		ff[i] = 0xff
	}
	f.Add(ff)
}

func FuzzC01(f *testing.F) {
	col := stats.New("C01", "fuzz")
	f.Cleanup(col.Write)
	seedCorpus(f)
	f.Fuzz(rapid.MakeFuzz(fuzzProp(c01, col)))
}

func FuzzC07(f *testing.F) {
	col := stats.New("C07", "fuzz")
	f.Cleanup(col.Write)
	seedCorpus(f)
	f.Fuzz(rapid.MakeFuzz(fuzzProp(c07reuse, col)))
}

func FuzzC08(f *testing.F) {
	col := stats.New("C08", "fuzz")
	f.Cleanup(col.Write)
	seedCorpus(f)
	f.Fuzz(rapid.MakeFuzz(fuzzProp(c08, col)))
}

func FuzzC09(f *testing.F) {
	col := stats.New("C09", "fuzz")
	f.Cleanup(col.Write)
	seedCorpus(f)
	f.Fuzz(rapid.MakeFuzz(fuzzProp(c09, col)))
}
