package checks

import (
	"fmt"
	"testing"

	"github.com/RoaringBitmap/roaring/v2"
	segment "github.com/blevesearch/scorch_segment_api/v2"
	"pgregory.net/rapid"

	"verifharness/drive"
	"verifharness/gen"
	"verifharness/spec"
)

// C01 — a built segment answers every term query as the batch dictates.

type buildCase struct {
	Batch     *spec.BatchSpec `json:"batch"`
	ChunkMode uint32          `json:"chunkMode"`
}

func genBuildCase(t *rapid.T) buildCase {
	s := gen.GenSchema(t, gen.DefaultSchemaOpts())
	b := s.GenBatch(t, "b", gen.BatchOpts{MaxDocs: 40, AllowWide: true, AllowEmpty: true})
	return buildCase{Batch: b, ChunkMode: gen.ChunkMode(t, "cm")}
}

// absentNames are field / term names no generator produces.
var absentFields = []string{"nosuchfield", ""}
var absentTerms = []string{"nosuchterm", "\x01\x02"}

// checkAbsent verifies that absent fields and terms give empty results.
func checkAbsent(prop string, seg segment.Segment, want *spec.Obs) *Violation {
	var v *Violation
	err := drive.Safe(func() error {
		fields := append([]string{}, absentFields...)
		for f := range want.Index {
			fields = append(fields, f)
			break
		}
		for _, f := range fields {
			d, err := seg.Dictionary(f)
			if err != nil {
				return fmt.Errorf("Dictionary(%q): %w", f, err)
			}
			_, known := want.Index[f]
			if !known {
				terms, _, err := drive.DictTerms(d)
				if err != nil {
					return err
				}
				if len(terms) != 0 || d.Cardinality() != 0 {
					v = violation(prop, "absent-field/nonempty-dictionary", "absent field %q has terms %q", f, terms)
					return nil
				}
			}
			for _, t := range absentTerms {
				if _, ok := want.Index[f][t]; ok {
					continue
				}
				pl, err := d.PostingsList([]byte(t), nil, nil)
				if err != nil {
					return fmt.Errorf("PostingsList(%q,%q): %w", f, t, err)
				}
				hits, err := drive.Hits(pl)
				if err != nil {
					return err
				}
				if len(hits) != 0 || pl.Count() != 0 {
					v = violation(prop, "absent-term/nonempty-postings", "absent term %q in field %q has %d hits, Count=%d", t, f, len(hits), pl.Count())
					return nil
				}
				// the same lookup with a recycled list (as term searchers do): a list that
				// last held a present term is passed back as preallocation
				for pf, pterms := range want.Index {
					for pt := range pterms {
						pd, err := seg.Dictionary(pf)
						if err != nil {
							return err
						}
						prev, err := pd.PostingsList([]byte(pt), nil, nil)
						if err != nil {
							return err
						}
						if _, err := drive.Hits(prev); err != nil {
							return err
						}
						pl2, err := d.PostingsList([]byte(t), nil, prev)
						if err != nil {
							return fmt.Errorf("PostingsList(%q,%q) with a recycled list: %w", f, t, err)
						}
						hits2, err := drive.Hits(pl2)
						if err != nil {
							return fmt.Errorf("iterating a recycled list for absent (%q,%q): %w", f, t, err)
						}
						if len(hits2) != 0 || pl2.Count() != 0 {
							v = violation(prop, "absent-term/nonempty-postings-recycled", "absent term %q in field %q looked up with a list recycled from (%q,%q) has %d hits, Count=%d", t, f, pf, pt, len(hits2), pl2.Count())
							return nil
						}
						// iterator objects travel the same way: the iterator of an empty result is handed
						// back as preallocation for a present term, read partly, and the absent term is
						// looked up again
						present, err := pd.PostingsList([]byte(pt), nil, nil)
						if err != nil {
							return err
						}
						emptyIt := pl.Iterator(true, true, true, nil)
						it := present.Iterator(true, true, true, emptyIt)
						if p, err := it.Next(); err != nil || p == nil {
							v = violation(prop, "present-term/recycled-iterator", "present term (%q,%q) read through an iterator recycled from an empty result gives %v, %v", pf, pt, p, err)
							return nil
						}
						pl3, err := d.PostingsList([]byte(t), nil, nil)
						if err != nil {
							return err
						}
						for _, pre := range []segment.PostingsIterator{nil, it} {
							p, err := pl3.Iterator(true, true, true, pre).Next()
							if err != nil {
								return fmt.Errorf("absent (%q,%q) after an iterator was recycled: %w", f, t, err)
							}
							if p != nil {
								v = violation(prop, "absent-term/nonempty-after-iterator-recycling", "absent term %q in field %q yields doc %d after the iterator of an empty result was recycled for (%q,%q) and read partly", t, f, p.Number(), pf, pt)
								return nil
							}
						}
						break
					}
					break
				}
				if ok, _ := d.Contains([]byte(t)); ok {
					v = violation(prop, "absent-term/contains", "Contains(%q,%q) true for an absent term", f, t)
					return nil
				}
			}
		}
		return nil
	})
	if err != nil {
		return violation(prop, "absent/error", "%v", err)
	}
	return v
}

// checkFlagVariants verifies that iterating with fewer detail flags returns the same documents.
func checkFlagVariants(prop string, seg segment.Segment, want *spec.Obs) *Violation {
	var v *Violation
	err := drive.Safe(func() error {
		for f, terms := range want.Index {
			d, err := seg.Dictionary(f)
			if err != nil {
				return err
			}
			for term, hits := range terms {
				pl, err := d.PostingsList([]byte(term), nil, nil)
				if err != nil {
					return err
				}
				for _, flags := range [][3]bool{{false, false, false}, {true, true, false}, {false, false, true}, {true, false, true}, {false, true, false}, {true, false, false}, {false, true, true}} {
					itr := pl.Iterator(flags[0], flags[1], flags[2], nil)
					i := 0
					for {
						p, err := itr.Next()
						if err != nil {
							return err
						}
						if p == nil {
							break
						}
						if i >= len(hits) || p.Number() != hits[i].Doc {
							v = violation(prop, "flags/doc-mismatch", "field %q term %q flags %v: hit %d is doc %d, model %v", f, term, flags, i, p.Number(), hits)
							return nil
						}
						if flags[0] && flags[1] && (p.Frequency() != hits[i].Freq || (hits[i].Freq > 0 && p.Norm() != hits[i].Norm)) {
							v = violation(prop, "flags/freqnorm-mismatch", "field %q term %q flags %v doc %d: freq %d norm %v, model freq %d norm %v", f, term, flags, p.Number(), p.Frequency(), p.Norm(), hits[i].Freq, hits[i].Norm)
							return nil
						}
						if !flags[2] && len(p.Locations()) != 0 {
							v = violation(prop, "flags/unrequested-locations", "field %q term %q flags %v doc %d returned %d locations", f, term, flags, p.Number(), len(p.Locations()))
							return nil
						}
						if flags[2] {
							// locations requested (with or without frequency / norm): exactly the input's
							got := drive.CopyHit(p)
							wantLocs := got // frequency and norm were not asked for: only the locations are compared
							wantLocs.Doc, wantLocs.Locs = hits[i].Doc, hits[i].Locs
							if d := spec.DiffHits([]spec.Hit{wantLocs}, []spec.Hit{got}); d != "" {
								v = violation(prop, "flags/locations-mismatch", "field %q term %q flags %v doc %d: %s", f, term, flags, p.Number(), d)
								return nil
							}
						}
						i++
					}
					if i != len(hits) {
						v = violation(prop, "flags/count-mismatch", "field %q term %q flags %v: %d hits, model %d", f, term, flags, i, len(hits))
						return nil
					}
				}
				// the same hits must come back when earlier ones are skipped over:
				// jump straight to the last hit, and read the second hit with the first excluded
				if len(hits) >= 2 {
					itr := pl.Iterator(true, true, true, nil)
					last := hits[len(hits)-1]
					p, err := itr.Advance(last.Doc)
					if err != nil {
						return err
					}
					if d := compareHit(p, &last, [3]bool{true, true, true}); d != "" {
						v = violation(prop, "skip/advance-to-last", "field %q term %q: Advance(%d) on a fresh iterator: %s", f, term, last.Doc, d)
						return nil
					}
					ex := roaring.BitmapOf(uint32(hits[0].Doc))
					pl2, err := d.PostingsList([]byte(term), ex, nil)
					if err != nil {
						return err
					}
					p2, err := pl2.Iterator(true, true, true, nil).Next()
					if err != nil {
						return err
					}
					if d := compareHit(p2, &hits[1], [3]bool{true, true, true}); d != "" {
						v = violation(prop, "skip/first-excluded", "field %q term %q: first hit with doc %d excluded: %s", f, term, hits[0].Doc, d)
						return nil
					}
				}
			}
		}
		return nil
	})
	if err != nil {
		return violation(prop, "flags/error", "%v", err)
	}
	return v
}

func runBuildCase(c buildCase) *Violation {
	const prop = "C01"
	want := spec.Expect(c.Batch)
	var seg segment.Segment
	err := drive.Safe(func() error {
		var e error
		seg, _, e = drive.Build(c.Batch, c.ChunkMode)
		return e
	})
	if err != nil {
		return violation(prop, "build/error", "build failed: %v", err)
	}
	defer seg.Close()
	got, err := drive.Observe(seg)
	if err != nil {
		return violation(prop, "observe/error", "%v", err)
	}
	if d := spec.Diff(want, got, spec.DiffOpts{SkipStored: true, SkipDV: true, SkipThes: true}); d != "" {
		return violation(prop, "index/mismatch", "%s", d)
	}
	if v := checkAbsent(prop, seg, want); v != nil {
		return v
	}
	return checkFlagVariants(prop, seg, want)
}

func classifyBatch(b *spec.BatchSpec) (bool, []string) {
	o := spec.Expect(b)
	var classes []string
	multiHit := false
	for _, terms := range o.Index {
		for t, hits := range terms {
			if len(hits) >= 2 {
				multiHit = true
			}
			if len(hits) > 1024 {
				classes = append(classes, "list>1024")
			}
			if t == "" {
				classes = append(classes, "empty-term")
			}
			for _, h := range hits {
				if h.Freq == 0 {
					classes = append(classes, "freq0")
				}
			}
		}
	}
	if b.Wide != nil {
		classes = append(classes, "wide")
	}
	if o.Count == 0 {
		classes = append(classes, "empty-batch")
	}
	for _, d := range b.Docs {
		if len(d.Composite) > 0 {
			classes = append(classes, "composite")
		}
		seen := map[string]bool{}
		for _, f := range d.Fields {
			if seen[f.Name] {
				classes = append(classes, "multi-valued")
			}
			seen[f.Name] = true
		}
	}
	return o.Count >= 2 && multiHit, dedup(classes)
}

func dedup(in []string) []string {
	seen := map[string]bool{}
	var out []string
	for _, s := range in {
		if !seen[s] {
			seen[s] = true
			out = append(out, s)
		}
	}
	return out
}

var c01 = Check[buildCase]{
	Property: "C01", Stage: "build",
	Gen: genBuildCase, Run: runBuildCase,
	Classify: func(c buildCase) (bool, []string) {
		nt, cl := classifyBatch(c.Batch)
		cl = append(cl, fmt.Sprintf("mode=%s", modeClass(c.ChunkMode)))
		return nt, cl
	},
}

func modeClass(m uint32) string {
	switch {
	case m == 0:
		return "default(1026)"
	case m == 1025, m == 1026, m == 1024:
		return fmt.Sprint(m)
	case m <= 4:
		return "1..4"
	default:
		return "5..1023"
	}
}

func init() { c01.register() }

func TestC01(t *testing.T) { c01.Rapid(t) }
