//go:build vectors

package checks

import (
	"fmt"
	"os"
	"runtime"
	"sort"
	"sync"
	"sync/atomic"
	"testing"
	"time"

	faiss "github.com/blevesearch/go-faiss"
	segment "github.com/blevesearch/scorch_segment_api/v2"
	zap "github.com/blevesearch/zapx/v16"
	"pgregory.net/rapid"

	"verifharness/drive"
	"verifharness/gen"
	"verifharness/spec"
	"verifharness/stats"
)

// C16 — vector search ignores cache history; indexes live exactly as long as used.

type cacheAction struct {
	Op       string        `json:"op"` // open search close expire
	Field    string        `json:"field,omitempty"`
	Filter   bool          `json:"filter,omitempty"`
	Except   spec.DropSpec `json:"except,omitempty"`
	Handle   int           `json:"handle,omitempty"` // index into the list of handles opened so far (mod len)
	Q        []float32     `json:"q,omitempty"`
	K        int64         `json:"k,omitempty"`
	Eligible []uint64      `json:"eligible,omitempty"`
	Plain    bool          `json:"plain,omitempty"` // search: run a plain Search even through a filtering-capable handle
	Fault    bool          `json:"fault,omitempty"` // search: the engine fails one search on this handle just before
	Defer    bool          `json:"defer,omitempty"` // search: the result list is read only after the next search on that handle (or when it is closed)
}

type cacheCase struct {
	Batch   *spec.BatchSpec `json:"batch"`
	Mmap    bool            `json:"mmap"`
	Actions []cacheAction   `json:"actions"`
}

func genCacheCase(t *rapid.T) cacheCase {
	o := gen.DefaultSchemaOpts()
	o.Vectors = 2
	o.MaxFields = 1
	o.NoComposite = true
	s := gen.GenSchema(t, o)
	c := cacheCase{Mmap: rapid.Bool().Draw(t, "mmap")}
	c.Batch = s.GenBatch(t, "b", gen.BatchOpts{MaxDocs: 8, MinDocs: 2})
	if gen.Chance(t, "clustered", 4) {
		vo := s.Vecs[0]
		c.Batch.VecWide = &spec.VecWideSpec{N: 1010, Field: vo.Name, Dim: vo.Dim, Metric: vo.Metric, Opt: vo.Opt, Seed: uint32(rapid.IntRange(0, 100).Draw(t, "vwSeed"))}
	}
	nd := c.Batch.NumDocs()
	// a small set of exclusion bitmaps, so pairs of them recur
	var bitmaps []spec.DropSpec
	for i := 0; i < 3; i++ {
		small := nd
		if small > 10 {
			small = 10
		}
		bitmaps = append(bitmaps, gen.GenDrop(t, fmt.Sprintf("bm%d", i), small))
	}
	bitmaps = append(bitmaps, spec.DropSpec{Nil: true})
	n := rapid.IntRange(3, 25).Draw(t, "nActions")
	for i := 0; i < n; i++ {
		al := fmt.Sprintf("a%d", i)
		a := cacheAction{Op: rapid.SampledFrom([]string{"open", "search", "search", "close", "expire", "open", "expire", "faultyopen"}).Draw(t, al+"op")}
		switch a.Op {
		case "open", "faultyopen":
			vo := s.Vecs[rapid.IntRange(0, len(s.Vecs)-1).Draw(t, al+"field")]
			a.Field = vo.Name
			a.Filter = rapid.Bool().Draw(t, al+"filter")
			a.Except = bitmaps[rapid.IntRange(0, len(bitmaps)-1).Draw(t, al+"bm")]
		case "search":
			a.Handle = rapid.IntRange(0, 30).Draw(t, al+"h")
			a.K = rapid.SampledFrom([]int64{1, 2, 3, 50}).Draw(t, al+"k")
			// the query vector is drawn for the largest dimension and cut at run time
			a.Q = make([]float32, 4)
			axis := rapid.IntRange(0, 3).Draw(t, al+"axis")
			a.Q[axis] = float32(rapid.SampledFrom([]int{1, -1}).Draw(t, al+"sign"))
			a.Eligible = rapid.SliceOfNDistinct(rapid.Uint64Range(0, uint64(min(nd, 10)-1)), 0, 6, rapid.ID[uint64]).Draw(t, al+"elig")
			a.Plain = rapid.Bool().Draw(t, al+"plain")
			a.Defer = gen.Chance(t, al+"defer", 40)
			a.Fault = gen.Chance(t, al+"fault", 15)
		case "close":
			a.Handle = rapid.IntRange(0, 30).Draw(t, al+"h")
		}
		c.Actions = append(c.Actions, a)
	}
	return c
}

// setMonitorFreq sets the period of the cache expiry monitor once per process,
// before the first monitor goroutine exists: monitor goroutines read the
// variable when they start, so changing it later would race with them.
var monitorFreqSet time.Duration

func setMonitorFreq(d time.Duration) {
	if monitorFreqSet == d {
		return
	}
	if monitorFreqSet != 0 {
		panic("the vector monitor period may only be set once per process")
	}
	monitorFreqSet = d
	zap.VerifSetVectorMonitorFreq(d)
}

type openHandle struct {
	vi     segment.VectorIndex
	field  string
	filter bool
	except spec.DropSpec
	closed bool
	// a result list not read yet, with the answer it must hold
	pending     segment.VecPostingsList
	pendingExp  []vecPair
	pendingDesc string
}

// queryFor shapes the generic query for a field: right dimension; for
// non-cosine metrics small integer coordinates derived from the axis vector.
func queryFor(vf *spec.VecField, q []float32) []float32 {
	out := make([]float32, vf.Dim)
	for i := range out {
		out[i] = q[i%len(q)]
	}
	if vf.Metric == "cosine" {
		nz := false
		for i := range out {
			if out[i] != 0 {
				if nz {
					out[i] = 0
				}
				nz = true
			}
		}
		if !nz {
			out[0] = 1
		}
	}
	return out
}

func runCacheCase(c cacheCase) *Violation {
	const prop = "C16"
	setMonitorFreq(time.Hour) // the timer is parked; expiry is an explicit action
	fakeReset()
	base := fakeLive()
	want := spec.Expect(c.Batch)

	// one build; the file is the reference for "fresh copy" answers
	var mem segment.Segment
	var path string
	if err := drive.Safe(func() error {
		var e error
		mem, _, e = drive.Build(c.Batch, 0)
		if e != nil {
			return e
		}
		path, e = drive.Persist(mem, "c16")
		return e
	}); err != nil {
		return violation(prop, "setup/error", "%v", err)
	}
	defer removeFile(path)
	var seg segment.Segment = mem
	if c.Mmap {
		mem.Close()
		o, err := drive.Open(path)
		if err != nil {
			return violation(prop, "setup/open", "%v", err)
		}
		seg = o
	}
	segClosed := false
	defer func() {
		if !segClosed {
			seg.Close()
		}
	}()

	fresh := func(h *openHandle, q []float32, k int64, useFilter bool, eligible []uint64) ([]vecPair, error) {
		o, err := drive.Open(path)
		if err != nil {
			return nil, err
		}
		defer o.Close()
		return vecSearchOpen(o, h.field, q, k, drive.Bitmap(h.except), h.filter, useFilter, eligible)
	}

	var handles []*openHandle
	var v *Violation
	// settle reads a deferred result list: it must still hold the answer of ITS search
	settle := func(h *openHandle) error {
		if h.pending == nil {
			return nil
		}
		got, err := readVecList(h.pending)
		h.pending = nil
		if err != nil {
			return fmt.Errorf("%s: reading the deferred result: %w", h.pendingDesc, err)
		}
		if fmt.Sprint(got) != fmt.Sprint(h.pendingExp) {
			v = violation(prop, "cache/history-dependent-answer", "%s: the result list, read after a later search on the same handle, holds %v; a freshly opened copy of the same file answers %v", h.pendingDesc, got, h.pendingExp)
		}
		return nil
	}
	err := drive.Safe(func() error {
		for i, a := range c.Actions {
			where := fmt.Sprintf("action %d (%s)", i, a.Op)
			switch a.Op {
			case "open":
				vi, err := seg.(segment.VectorSegment).InterpretVectorIndex(a.Field, a.Filter, drive.Bitmap(a.Except))
				if err != nil {
					return fmt.Errorf("%s: %w", where, err)
				}
				handles = append(handles, &openHandle{vi: vi, field: a.Field, filter: a.Filter, except: a.Except})
			case "faultyopen":
				// an open during which the engine fails to load the index (if the index is
				// cached no load happens and the open succeeds); later opens must be unaffected
				faiss.VerifFailNth("ReadIndexFromBuffer", 1)
				vi, err := seg.(segment.VectorSegment).InterpretVectorIndex(a.Field, a.Filter, drive.Bitmap(a.Except))
				faiss.VerifFailNth("ReadIndexFromBuffer", 0)
				if err != nil {
					if vi != nil {
						vi.Close()
					}
					continue
				}
				handles = append(handles, &openHandle{vi: vi, field: a.Field, filter: a.Filter, except: a.Except})
			case "close":
				if len(handles) == 0 {
					continue
				}
				h := handles[a.Handle%len(handles)]
				if !h.closed {
					if err := settle(h); err != nil || v != nil {
						return err
					}
					h.vi.Close()
					h.closed = true
				}
			case "expire":
				zap.VerifVectorCacheExpire(seg)
			case "search":
				var open []*openHandle
				for _, h := range handles {
					if !h.closed {
						open = append(open, h)
					}
				}
				if len(open) == 0 {
					continue
				}
				h := open[a.Handle%len(open)]
				vf := want.Vec[h.field]
				if vf == nil {
					continue
				}
				q := queryFor(vf, a.Q)
				var eligible []uint64
				useFilter := h.filter && !a.Plain
				if useFilter {
					ex := dropSet(h.except)
					for _, d := range a.Eligible {
						if !ex[d] && d < uint64(want.Count) {
							eligible = append(eligible, d)
						}
					}
				}
				if a.Fault {
					// the engine fails this one search (whichever engine call it makes first); the
					// error is the caller's to see, the handle and the cached index stay as they were
					for _, op := range []string{"Search", "SearchWithoutIDs", "SearchWithIDs"} {
						faiss.VerifFailNth(op, 1)
					}
					_, ferr := startSearch(h.vi, q, a.K, useFilter, eligible)
					for _, op := range []string{"Search", "SearchWithoutIDs", "SearchWithIDs"} {
						faiss.VerifFailNth(op, 0)
					}
					_ = ferr
				}
				pl, err := startSearch(h.vi, q, a.K, useFilter, eligible)
				if err != nil {
					return fmt.Errorf("%s: %w", where, err)
				}
				exp, err := fresh(h, q, a.K, useFilter, eligible)
				if err != nil {
					return fmt.Errorf("%s: fresh copy: %w", where, err)
				}
				// an earlier result that was not read yet is read now, after this search was issued
				if err := settle(h); err != nil || v != nil {
					return err
				}
				desc := fmt.Sprintf("%s: field %q q=%v k=%d except=%v handle-filtering=%v filtered-search=%v eligible=%v", where, h.field, q, a.K, h.except.Docs, h.filter, useFilter, eligible)
				if a.Defer {
					h.pending, h.pendingExp, h.pendingDesc = pl, exp, desc
					continue
				}
				got, err := readVecList(pl)
				if err != nil {
					return fmt.Errorf("%s: %w", where, err)
				}
				if fmt.Sprint(got) != fmt.Sprint(exp) {
					v = violation(prop, "cache/history-dependent-answer", "%s: the handle answered %v, a freshly opened copy of the same file answers %v", desc, got, exp)
					return nil
				}
				ex := dropSet(h.except)
				el := map[uint64]bool{}
				for _, d := range eligible {
					el[d] = true
				}
				live := func(d uint64) bool { return !ex[d] && (!useFilter || el[d]) }
				if m := vecOracle(vf.Entries, vf.Metric, q, a.K, live, isExact(vf), got); m != "" {
					v = violation(prop, "cache/search-mismatch", "%s: %s", desc, m)
					return nil
				}
			}
			if m := faissMisuse(); m != "" {
				v = violation(prop, "cache/index-lifetime", "%s: %s", where, m)
				return nil
			}
		}
		return nil
	})
	if err != nil {
		return violation(prop, "cache/error", "%v", err)
	}
	if v != nil {
		return v
	}
	for _, h := range handles {
		if !h.closed {
			if err := settle(h); err != nil {
				return violation(prop, "cache/error", "%v", err)
			}
			if v != nil {
				return v
			}
			h.vi.Close()
		}
	}
	seg.Close()
	segClosed = true
	if !waitLive(base) {
		return violation(prop, "cache/index-leak", "after closing every handle and the segment %d native indexes are still alive", fakeLive()-base)
	}
	if m := faissMisuse(); m != "" {
		return violation(prop, "cache/index-lifetime", "at segment close: %s", m)
	}
	if n := faiss.VerifClosed(); n > faiss.VerifCreated() {
		return violation(prop, "cache/index-lifetime", "%d indexes created but %d closed", faiss.VerifCreated(), n)
	}
	return nil
}

var c16 = Check[cacheCase]{
	Property: "C16", Stage: "cache-history",
	Gen: genCacheCase, Run: runCacheCase,
	Classify: func(c cacheCase) (bool, []string) {
		var cl []string
		// a second open with a different exclusion bitmap than the first open of that field, or an expire between opens
		first := map[string]string{}
		diff, expireBetween, sawOpen := false, false, false
		expired := false
		for _, a := range c.Actions {
			switch a.Op {
			case "faultyopen":
				cl = append(cl, "open-with-failing-index-load")
			case "open":
				key := fmt.Sprint(a.Except)
				if f, ok := first[a.Field]; ok && f != key {
					diff = true
				} else if !ok {
					first[a.Field] = key
				}
				if expired && sawOpen {
					expireBetween = true
				}
				sawOpen = true
			case "expire":
				expired = true
			}
		}
		if diff {
			cl = append(cl, "second-open-with-other-exclusion")
		}
		if expireBetween {
			cl = append(cl, "expiry-between-opens")
		}
		if c.Mmap {
			cl = append(cl, "mmap")
		} else {
			cl = append(cl, "in-memory")
		}
		if c.Batch.VecWide != nil {
			cl = append(cl, "clustered-index")
		}
		return diff || expireBetween, cl
	},
}

func TestC16(t *testing.T) { c16.Rapid(t) }

// ---------------------------------------------------------------------------
// concurrent searchers with the expiry monitor running (schedule sampling)

type cacheStressCase struct {
	Batch     *spec.BatchSpec `json:"batch"`
	Searchers [][]cacheAction `json:"searchers"` // each: a list of search actions; each opens its own handle per search
}

func runCacheStressCase(c cacheStressCase) *Violation {
	const prop = "C16"
	setMonitorFreq(time.Millisecond)
	fakeReset()
	base := fakeLive()
	want := spec.Expect(c.Batch)
	var path string
	if err := drive.Safe(func() error {
		mem, _, e := drive.Build(c.Batch, 0)
		if e != nil {
			return e
		}
		defer mem.Close()
		path, e = drive.Persist(mem, "c16s")
		return e
	}); err != nil {
		return violation(prop, "setup/error", "%v", err)
	}
	defer removeFile(path)
	seg, err := drive.Open(path)
	if err != nil {
		return violation(prop, "setup/open", "%v", err)
	}
	// expected answers from fresh copies, computed before any concurrency
	type exp struct {
		q    []float32
		el   []uint64
		want []vecPair
	}
	expected := make([][]exp, len(c.Searchers))
	for g, acts := range c.Searchers {
		for _, a := range acts {
			vf := want.Vec[a.Field]
			if vf == nil {
				expected[g] = append(expected[g], exp{})
				continue
			}
			q := queryFor(vf, a.Q)
			var el []uint64
			if a.Filter {
				ex := dropSet(a.Except)
				for _, d := range a.Eligible {
					if !ex[d] && d < uint64(want.Count) {
						el = append(el, d)
					}
				}
			}
			o, err := drive.Open(path)
			if err != nil {
				seg.Close()
				return violation(prop, "setup/open", "%v", err)
			}
			w, err := vecSearch(o, a.Field, q, a.K, drive.Bitmap(a.Except), a.Filter, el)
			o.Close()
			if err != nil {
				seg.Close()
				return violation(prop, "stress/error", "fresh copy: %v", err)
			}
			expected[g] = append(expected[g], exp{q: q, el: el, want: w})
		}
	}
	// cold starts: on a freshly opened copy (empty cache) unfiltered and filtered first searches of
	// the same field start at the same instant, so several goroutines load and cache that field's
	// index concurrently; every answer must equal the fresh-copy answer computed beforehand
	type coldJob struct {
		field  string
		q      []float32
		filter bool
		el     []uint64
		want   []vecPair
	}
	var coldJobs []coldJob
	{
		var names []string
		for f, vf := range want.Vec {
			if len(vf.Entries) > 0 {
				names = append(names, f)
			}
		}
		sort.Strings(names)
		for _, f := range names {
			vf := want.Vec[f]
			q := append([]float32(nil), vf.Entries[0].Vec...)
			el := []uint64{vf.Entries[0].Doc}
			for _, flt := range []bool{false, true} {
				o, err := drive.Open(path)
				if err != nil {
					seg.Close()
					return violation(prop, "setup/open", "%v", err)
				}
				var e []uint64
				if flt {
					e = el
				}
				w, err := vecSearch(o, f, q, 50, nil, flt, e)
				o.Close()
				if err != nil {
					seg.Close()
					return violation(prop, "stress/error", "fresh copy: %v", err)
				}
				coldJobs = append(coldJobs, coldJob{field: f, q: q, filter: flt, el: e, want: w})
			}
		}
	}
	rounds := 25
	if os.Getenv("VERIF_TIER") == "thorough" {
		rounds = 150
	}
	for r := 0; r < rounds && len(coldJobs) > 0; r++ {
		cold, err := drive.Open(path)
		if err != nil {
			seg.Close()
			return violation(prop, "setup/open", "%v", err)
		}
		n := 2 * len(coldJobs)
		coldRes := make([]*Violation, n)
		var cwg, ready sync.WaitGroup
		go0 := make(chan struct{})
		for g := 0; g < n; g++ {
			job := coldJobs[(g+r)%len(coldJobs)]
			cwg.Add(1)
			ready.Add(1)
			go func(g int) {
				defer cwg.Done()
				ready.Done()
				<-go0
				err := drive.Safe(func() error {
					got, err := vecSearch(cold, job.field, job.q, 50, nil, job.filter, job.el)
					if err != nil {
						return err
					}
					if fmt.Sprint(got) != fmt.Sprint(job.want) {
						coldRes[g] = violation(prop, "stress/history-dependent-answer", "cold start: first search of field %q (q=%v k=50 filtered=%v eligible=%v) racing with other first searches of the segment: got %v, a fresh copy answers %v", job.field, job.q, job.filter, job.el, got, job.want)
					}
					return nil
				})
				if err != nil && coldRes[g] == nil {
					coldRes[g] = violation(prop, "stress/error", "cold start: %v", err)
				}
			}(g)
		}
		ready.Wait()
		close(go0)
		cwg.Wait()
		cold.Close()
		for _, v := range coldRes {
			if v != nil {
				seg.Close()
				return v
			}
		}
	}
	// expiry hammer: one goroutine runs expiry passes back to back while the others open, search and
	// close as fast as they can, so that an entry is often exactly one idle pass from eviction when
	// an opener takes its reference
	if len(coldJobs) > 0 {
		iters := 150
		if os.Getenv("VERIF_TIER") == "thorough" {
			iters = 1500
		}
		var stopHammer atomic.Bool
		var hwg, swg sync.WaitGroup
		hwg.Add(1)
		go func() {
			defer hwg.Done()
			for !stopHammer.Load() {
				zap.VerifVectorCacheExpire(seg)
				runtime.Gosched()
			}
		}()
		hres := make([]*Violation, 3)
		for g := 0; g < 3; g++ {
			swg.Add(1)
			go func(g int) {
				defer swg.Done()
				err := drive.Safe(func() error {
					for i := 0; i < iters && hres[g] == nil; i++ {
						job := coldJobs[(g+i)%len(coldJobs)]
						got, err := vecSearch(seg, job.field, job.q, 50, nil, job.filter, job.el)
						if err != nil {
							return err
						}
						if fmt.Sprint(got) != fmt.Sprint(job.want) {
							hres[g] = violation(prop, "stress/history-dependent-answer", "search of field %q (filtered=%v) while expiry passes run back to back: got %v, a fresh copy answers %v", job.field, job.filter, got, job.want)
						}
						if i%7 == 0 {
							time.Sleep(50 * time.Microsecond) // an idle gap now and then
						}
					}
					return nil
				})
				if err != nil && hres[g] == nil {
					hres[g] = violation(prop, "stress/error", "search while expiry passes run back to back: %v", err)
				}
			}(g)
		}
		swg.Wait()
		stopHammer.Store(true)
		hwg.Wait()
		for _, v := range hres {
			if v != nil {
				seg.Close()
				return v
			}
		}
		if m := faissMisuse(); m != "" {
			seg.Close()
			return violation(prop, "stress/index-lifetime", "searches while expiry passes run back to back: %s", m)
		}
	}
	res := make([]*Violation, len(c.Searchers))
	var wg sync.WaitGroup
	start := make(chan struct{})
	for g := range c.Searchers {
		wg.Add(1)
		go func(g int) {
			defer wg.Done()
			<-start
			err := drive.Safe(func() error {
				for rep := 0; rep < 3; rep++ {
					for i, a := range c.Searchers[g] {
						e := expected[g][i]
						if e.q == nil {
							continue
						}
						got, err := vecSearch(seg, a.Field, e.q, a.K, drive.Bitmap(a.Except), a.Filter, e.el)
						if err != nil {
							return err
						}
						if fmt.Sprint(got) != fmt.Sprint(e.want) {
							res[g] = violation(prop, "stress/history-dependent-answer", "searcher %d query %d (field %q q=%v k=%d except=%v filter=%v eligible=%v): got %v, a fresh copy answers %v", g, i, a.Field, e.q, a.K, a.Except.Docs, a.Filter, e.el, got, e.want)
							return nil
						}
						if (i+rep)%3 == 0 {
							time.Sleep(1500 * time.Microsecond) // let the monitor tick
						}
					}
				}
				return nil
			})
			if err != nil && res[g] == nil {
				res[g] = violation(prop, "stress/error", "searcher %d: %v", g, err)
			}
		}(g)
	}
	close(start)
	wg.Wait()
	seg.Close()
	for _, r := range res {
		if r != nil {
			return r
		}
	}
	if m := faissMisuse(); m != "" {
		return violation(prop, "stress/index-lifetime", "%s", m)
	}
	if !waitLive(base) {
		return violation(prop, "stress/index-leak", "after the segment was closed %d native indexes are still alive", fakeLive()-base)
	}
	return nil
}

var c16stress = Check[cacheStressCase]{
	Property: "C16", Stage: "cache-stress",
	Gen: func(t *rapid.T) cacheStressCase {
		base := genCacheCase(t)
		c := cacheStressCase{Batch: base.Batch}
		c.Batch.VecWide = nil
		g := rapid.SampledFrom([]int{3, 2, 6}).Draw(t, "searchers")
		var opens, searches []cacheAction
		for _, a := range base.Actions {
			if a.Op == "open" {
				opens = append(opens, a)
			}
			if a.Op == "search" {
				searches = append(searches, a)
			}
		}
		if len(opens) == 0 || len(searches) == 0 {
			t.Skip("no open/search pair")
		}
		for i := 0; i < g; i++ {
			var acts []cacheAction
			n := rapid.IntRange(1, 5).Draw(t, fmt.Sprintf("s%dn", i))
			for j := 0; j < n; j++ {
				o := opens[rapid.IntRange(0, len(opens)-1).Draw(t, fmt.Sprintf("s%do%d", i, j))]
				s := searches[rapid.IntRange(0, len(searches)-1).Draw(t, fmt.Sprintf("s%ds%d", i, j))]
				s.Field, s.Filter, s.Except = o.Field, o.Filter, o.Except
				if s.Filter && rapid.Bool().Draw(t, fmt.Sprintf("s%dhot%d", i, j)) {
					// filtered searches of different goroutines that start with the same document
					// (the one with most vectors in the field) and differ afterwards
					hot, best := uint64(0), 0
					cnt := map[uint64]int{}
					if vf := spec.Expect(c.Batch).Vec[s.Field]; vf != nil {
						for _, e := range vf.Entries {
							cnt[e.Doc]++
							if cnt[e.Doc] > best {
								hot, best = e.Doc, cnt[e.Doc]
							}
						}
					}
					el := []uint64{hot}
					for _, d := range s.Eligible {
						if d != hot {
							el = append(el, d)
						}
					}
					s.Eligible = el
					s.Except = spec.DropSpec{Nil: true}
				}
				acts = append(acts, s)
			}
			c.Searchers = append(c.Searchers, acts)
		}
		return c
	},
	Run: func(c cacheStressCase) *Violation {
		pendingCase("C16", "cache-stress", c)
		return runCacheStressCase(c)
	},
	Classify: func(c cacheStressCase) (bool, []string) {
		return len(c.Searchers) >= 2, []string{fmt.Sprintf("searchers=%d", len(c.Searchers))}
	},
}

func TestC16Stress(t *testing.T) { c16stress.Rapid(t) }

func init() {
	c16.register()
	c16stress.register()
}

// Deterministic history on a clustered index: one filtering-capable handle answers filtered
// searches whose eligible sets are two different three-quarters of the 1200 documents, in turn.
func TestC16Fixed(t *testing.T) {
	col := stats.New("C16", "cache-history")
	defer col.Write()
	c := cacheCase{Mmap: true, Batch: &spec.BatchSpec{VecWide: &spec.VecWideSpec{N: 1200, Field: "vec", Dim: 2, Metric: "l2_norm", Opt: "recall", Seed: 7}}}
	var a, b []uint64
	for d := uint64(0); d < 1200; d++ {
		if d < 900 {
			a = append(a, d)
		}
		if d >= 300 {
			b = append(b, d)
		}
	}
	c.Actions = append(c.Actions, cacheAction{Op: "open", Field: "vec", Filter: true, Except: spec.DropSpec{Nil: true}})
	for _, q := range [][]float32{{1, 0, 0, 0}, {0, 1, 0, 0}, {-1, 0, 0, 0}, {0, -1, 0, 0}} {
		for _, el := range [][]uint64{a, b, a} {
			c.Actions = append(c.Actions, cacheAction{Op: "search", Handle: 0, Q: q, K: 50, Eligible: el})
		}
	}
	// a filtered search that needs more clusters than the default probe count (sparse eligible set,
	// k larger than the index) between two identical plain searches through a second handle: the
	// shared cached index must not keep search parameters of an earlier search
	var evens []uint64
	for d := uint64(0); d < 1200; d += 2 {
		evens = append(evens, d)
	}
	c.Actions = append(c.Actions,
		cacheAction{Op: "open", Field: "vec", Filter: false, Except: spec.DropSpec{Nil: true}},
		cacheAction{Op: "search", Handle: 1, Q: []float32{1, 0, 0, 0}, K: 2400, Plain: true},
		cacheAction{Op: "search", Handle: 0, Q: []float32{1, 0, 0, 0}, K: 2400, Eligible: evens},
		cacheAction{Op: "search", Handle: 1, Q: []float32{1, 0, 0, 0}, K: 2400, Plain: true},
		cacheAction{Op: "search", Handle: 0, Q: []float32{0, 1, 0, 0}, K: 3, Eligible: a})
	// the engine fails one search of the second handle, which is then closed; after several idle
	// expiry passes the first handle must still answer (its reference keeps the index alive)
	c.Actions = append(c.Actions,
		cacheAction{Op: "search", Handle: 1, Q: []float32{0, 1, 0, 0}, K: 5, Plain: true, Fault: true},
		cacheAction{Op: "close", Handle: 1},
		cacheAction{Op: "expire"}, cacheAction{Op: "expire"}, cacheAction{Op: "expire"}, cacheAction{Op: "expire"},
		cacheAction{Op: "search", Handle: 0, Q: []float32{0, 1, 0, 0}, K: 5, Eligible: b})
	c.Actions = append(c.Actions, cacheAction{Op: "close", Handle: 0})
	sc := c
	sc.Actions = sc.Actions[:1]
	col.CaseHash(stats.HashJSON("fixed-clustered-alternating-filters"), true, []string{"clustered", "alternating-eligible-sets-on-one-handle"}, func() any { return sampleOf(sc) })
	reportBig(t, col, "C16", "cache-history", c, safeRun(c16, c))
}
