package checks

import (
	"bytes"
	"errors"
	"fmt"
	"runtime"
	"runtime/debug"
	"sort"
	"strings"
	"sync"
	"testing"

	index "github.com/blevesearch/bleve_index_api"
	segment "github.com/blevesearch/scorch_segment_api/v2"
	zap "github.com/blevesearch/zapx/v16"
	"pgregory.net/rapid"

	"verifharness/drive"
	"verifharness/gen"
	"verifharness/spec"
	"verifharness/stats"
)

// C10 — a build depends only on its batch, not on earlier or concurrent builds.

type buildStep struct {
	Batch     *spec.BatchSpec `json:"batch"`
	ChunkMode uint32          `json:"chunkMode"`
	Reject    string          `json:"reject,omitempty"` // field name the validator rejects for this build ("" = none)
}

type historyCase struct {
	Steps []buildStep `json:"steps"`
}

type concHistoryCase struct {
	Histories []historyCase `json:"histories"`
}

var errRejected = errors.New("verif: field rejected by validator")

func genHistory(t *rapid.T, label string, allowReject bool, maxBuilds, maxDocs int) historyCase {
	// a "big" and a "small" schema so that truncating resets matter
	bigO := gen.SchemaOpts{MinFields: 3, MaxFields: 6, Synonyms: 1, Vectors: vectorsMaybe}
	smallO := gen.SchemaOpts{MinFields: 1, MaxFields: 2, NoComposite: true, Synonyms: 0, Vectors: 0}
	big := gen.GenSchema(t, bigO)
	small := gen.GenSchema(t, smallO)
	if rapid.Bool().Draw(t, label+"smallSyn") && len(big.Thesauri) > 0 {
		small.Thesauri, small.SynTerms = big.Thesauri[:1], big.SynTerms
	}
	n := rapid.IntRange(2, maxBuilds).Draw(t, label+"nBuilds")
	h := historyCase{}
	for i := 0; i < n; i++ {
		sl := fmt.Sprintf("%ss%d", label, i)
		st := buildStep{ChunkMode: gen.ChunkMode(t, sl+"cm")}
		useBig := i == 0 || rapid.IntRange(0, 2).Draw(t, sl+"which") == 0
		if useBig {
			st.Batch = big.GenBatch(t, sl, gen.BatchOpts{MaxDocs: maxDocs, MinDocs: 3, AllowWide: maxDocs >= 20, WidePct: 2, SynPct: 40})
		} else {
			st.Batch = small.GenBatch(t, sl, gen.BatchOpts{MaxDocs: 4, AllowEmpty: true, SynPct: 40})
		}
		if allowReject && gen.Chance(t, sl+"reject", 15) {
			// reject a field name that occurs in the batch (if any)
			var names []string
			for _, d := range st.Batch.Docs {
				for _, f := range d.Fields {
					names = append(names, f.Name)
				}
			}
			if len(names) > 0 {
				st.Reject = rapid.SampledFrom(names).Draw(t, sl+"rejectName")
			}
		}
		// every synonym document of this build carries a synonym string no other build of the
		// history has: its bytes must not show up in the image of any other build
		for di := range st.Batch.Docs {
			for fi := range st.Batch.Docs[di].Fields {
				f := &st.Batch.Docs[di].Fields[fi]
				if f.Kind == spec.KindSyn && len(f.Syn) > 0 {
					f.Syn[0].Syns = append(f.Syn[0].Syns, spec.B(stepMarker(label, i)))
				}
			}
		}
		h.Steps = append(h.Steps, st)
	}
	if maxDocs >= 20 && gen.Chance(t, label+"huge", 6) {
		// two batches with more than 4096 postings lists each on the same pooled builder
		// (size-capped retention logic would only show here), followed by a small one
		for k := 0; k < 2; k++ {
			w := gen.GenWide(t, fmt.Sprintf("%shuge%d", label, k))
			w.N = rapid.SampledFrom([]int{4200, 4500}).Draw(t, fmt.Sprintf("%shugeN%d", label, k))
			w.DV, w.IDDV = big.WideDV, big.IDDV
			h.Steps = append(h.Steps, buildStep{Batch: &spec.BatchSpec{Wide: w}, ChunkMode: 0})
		}
		h.Steps = append(h.Steps, buildStep{Batch: small.GenBatch(t, label+"afterHuge", gen.BatchOpts{MaxDocs: 3}), ChunkMode: 0})
	}
	return h
}

// stepMarker is the synonym string only build i of history `label` uses.
func stepMarker(label string, i int) string { return fmt.Sprintf("mark-%s-%02d-syn", label, i) }

// markersOf lists the marker strings occurring in a batch.
func markersOf(b *spec.BatchSpec) map[string]bool {
	out := map[string]bool{}
	for _, d := range b.Docs {
		for _, f := range d.Fields {
			for _, def := range f.Syn {
				for _, x := range def.Syns {
					if strings.HasPrefix(string(x), "mark-") {
						out[string(x)] = true
					}
				}
			}
		}
	}
	return out
}

// runStep builds one batch and checks it against the model of that batch alone.
func runStep(prop string, st *buildStep, where string, foreign ...string) *Violation {
	want := spec.Expect(st.Batch)
	var seg segment.Segment
	err := drive.Safe(func() error {
		var e error
		seg, _, e = drive.Build(st.Batch, st.ChunkMode)
		return e
	})
	if st.Reject != "" {
		if err == nil {
			seg.Close()
			return violation(prop, "history/rejected-build-succeeded", "%s: the validator rejected field %q but the build returned no error", where, st.Reject)
		}
		if !errors.Is(err, errRejected) {
			return violation(prop, "history/rejected-build-other-error", "%s: expected the validator's error, got: %v", where, err)
		}
		return nil
	}
	if err != nil {
		return violation(prop, "history/build-error", "%s: %v", where, err)
	}
	defer seg.Close()
	got, err := drive.Observe(seg)
	if err != nil {
		return violation(prop, "history/observe-error", "%s: %v", where, err)
	}
	if d := spec.Diff(want, got, spec.DiffOpts{}); d != "" {
		return violation(prop, "history/trace-of-other-build", "%s: the segment differs from what its own batch dictates: %s", where, d)
	}
	if v := vectorSegmentCheck(prop, seg, want, where); v != nil {
		return v
	}
	// what the segment reports about itself is part of what the batch determines: its image
	// carries a checksum of exactly its own bytes, and its bytes-written statistic counts a
	// subset of those bytes (for an empty batch: the same as on a new builder)
	if sb, ok := seg.(*zap.SegmentBase); ok {
		var buf bytes.Buffer
		if err := drive.Safe(func() error {
			_, e := sb.WriteTo(&buf)
			return e
		}); err != nil {
			return violation(prop, "history/writeto-error", "%s: %v", where, err)
		}
		if v := checkFooter(prop, buf.Bytes(), want.Count, effMode(st.ChunkMode)); v != nil {
			v.Signature = "history/" + v.Signature
			v.Message = where + ": " + v.Message
			return v
		}
		for _, m := range foreign {
			if bytes.Contains(buf.Bytes(), []byte(m)) {
				return violation(prop, "history/bytes-of-another-build", "%s: the segment image contains the string %q, which only another build of this history was given", where, m)
			}
		}
		if bw := sb.BytesWritten(); bw > uint64(buf.Len()) {
			return violation(prop, "history/bytes-written-exceeds-image", "%s: the segment reports %d bytes written, its whole image has %d", where, bw, buf.Len())
		}
		if want.Count == 0 && sb.BytesWritten() != emptyBuildStat.bytesWritten {
			return violation(prop, "history/empty-batch-statistic", "%s: a segment built from an empty batch reports %d bytes written, on a new builder it reports %d", where, sb.BytesWritten(), emptyBuildStat.bytesWritten)
		}
	}
	return nil
}

// emptyBuildStat holds what a build of an empty batch on a new builder reports (measured once,
// before any history runs).
var emptyBuildStat struct {
	once         sync.Once
	bytesWritten uint64
}

func measureEmptyBuild() {
	emptyBuildStat.once.Do(func() {
		zap.VerifResetPools()
		seg, _, err := drive.Build(&spec.BatchSpec{}, 0)
		if err != nil {
			panic(err)
		}
		emptyBuildStat.bytesWritten = seg.(*zap.SegmentBase).BytesWritten()
		seg.Close()
	})
}

type stepInfo struct {
	fields, terms, docs int
}

func infoOf(b *spec.BatchSpec) stepInfo {
	o := spec.Expect(b)
	n := 0
	for _, t := range o.Index {
		n += len(t)
	}
	return stepInfo{fields: len(o.Fields), terms: n, docs: int(o.Count)}
}

var lastHistoryReuse struct {
	sync.Mutex
	reusedAfterBigger int
	reused            int
}

func runHistoryCase(c historyCase) *Violation {
	const prop = "C10"
	prevProcs := runtime.GOMAXPROCS(1) // sync.Pool hands the same builder back on one P
	defer runtime.GOMAXPROCS(prevProcs)
	// a GC cycle empties sync.Pools; large batches would otherwise trigger one between two
	// builds and the later build would silently get a fresh builder
	defer debug.SetGCPercent(debug.SetGCPercent(-1))
	measureEmptyBuild()
	zap.VerifResetPools()
	oldValidate := zap.ValidateDocFields
	defer func() { zap.ValidateDocFields = oldValidate }()
	reused, reusedAfterBigger := 0, 0
	var prev *stepInfo
	for i := range c.Steps {
		st := &c.Steps[i]
		reject := st.Reject
		zap.ValidateDocFields = func(f index.Field) error {
			if reject != "" && f.Name() == reject {
				return errRejected
			}
			return nil
		}
		before := zap.VerifInterimPoolNews()
		var foreign []string
		own := markersOf(st.Batch)
		for j := range c.Steps {
			if j != i {
				for m := range markersOf(c.Steps[j].Batch) {
					if !own[m] {
						foreign = append(foreign, m)
					}
				}
			}
		}
		sort.Strings(foreign)
		v := runStep(prop, st, fmt.Sprintf("build %d of %d", i+1, len(c.Steps)), foreign...)
		if v != nil {
			return v
		}
		info := infoOf(st.Batch)
		if zap.VerifInterimPoolNews() == before {
			reused++
			if prev != nil && (prev.fields > info.fields || prev.terms > info.terms || prev.docs > info.docs) {
				reusedAfterBigger++
			}
		}
		if st.Reject == "" {
			prev = &info
		}
	}
	lastHistoryReuse.Lock()
	lastHistoryReuse.reused, lastHistoryReuse.reusedAfterBigger = reused, reusedAfterBigger
	lastHistoryReuse.Unlock()
	return nil
}

var c10 = Check[historyCase]{
	Property: "C10", Stage: "history",
	Gen: func(t *rapid.T) historyCase { return genHistory(t, "h", true, 8, 20) },
	Run: runHistoryCase,
	Classify: func(c historyCase) (bool, []string) {
		// runs BEFORE the case; classes are derived statically, the measured
		// reuse of the previous case is reported through extra counters
		var cl []string
		shrink := false
		var prev *stepInfo
		for i := range c.Steps {
			info := infoOf(c.Steps[i].Batch)
			if c.Steps[i].Reject != "" {
				cl = append(cl, "rejected-build")
				continue
			}
			if prev != nil && (prev.fields > info.fields || prev.terms > info.terms) {
				shrink = true
			}
			if info.docs == 0 {
				cl = append(cl, "empty-batch")
			}
			prev = &info
		}
		if shrink {
			cl = append(cl, "smaller-after-larger")
		}
		return shrink, dedup(cl)
	},
	After: func(historyCase) []string {
		lastHistoryReuse.Lock()
		defer lastHistoryReuse.Unlock()
		var cl []string
		if lastHistoryReuse.reused > 0 {
			cl = append(cl, "measured:pooled-builder-reused")
		}
		if lastHistoryReuse.reusedAfterBigger > 0 {
			cl = append(cl, "measured:reused-after-larger-batch")
		}
		return cl
	},
}

func TestC10(t *testing.T) {
	c10.Rapid(t)
}

// TestC10Reuse measures (not assumes) that a sequential history really gets
// the pooled builder back, so the non-triviality rule is meaningful.
func TestC10ReuseMeasured(t *testing.T) {
	prevProcs := runtime.GOMAXPROCS(1)
	defer runtime.GOMAXPROCS(prevProcs)
	defer debug.SetGCPercent(debug.SetGCPercent(-1)) // a GC cycle empties sync.Pools
	zap.VerifResetPools()
	b := &spec.BatchSpec{Docs: []spec.DocSpec{{ID: "x", Fields: []spec.FieldSpec{{Name: "f", Len: 1, Tokens: []spec.TokenSpec{{Term: "t", Freq: 1}}}}}}}
	for i := 0; i < 5; i++ {
		s, _, err := drive.Build(b, 0)
		if err != nil {
			t.Fatal(err)
		}
		s.Close()
	}
	if n := zap.VerifInterimPoolNews(); n > 2 {
		t.Fatalf("5 sequential builds allocated %d fresh builders: the pool does not hand the builder back, C10's sequential stage would be vacuous", n)
	}
}

// ---- concurrent builders ---------------------------------------------------

func runConcHistoryCase(c concHistoryCase) *Violation {
	const prop = "C10"
	measureEmptyBuild()
	zap.VerifResetPools()
	var wg sync.WaitGroup
	res := make([]*Violation, len(c.Histories))
	start := make(chan struct{})
	for g := range c.Histories {
		wg.Add(1)
		go func(g int) {
			defer wg.Done()
			<-start
			h := c.Histories[g]
			for i := range h.Steps {
				if v := runStep(prop, &h.Steps[i], fmt.Sprintf("goroutine %d build %d", g, i+1)); v != nil {
					v.Signature = "concurrent/" + v.Signature
					res[g] = v
					return
				}
			}
		}(g)
	}
	close(start)
	wg.Wait()
	for _, v := range res {
		if v != nil {
			return v
		}
	}
	return nil
}

var c10conc = Check[concHistoryCase]{
	Property: "C10", Stage: "concurrent",
	Gen: func(t *rapid.T) concHistoryCase {
		// a few distinct histories, spread over G goroutines (cheap in draws)
		k := rapid.IntRange(2, 3).Draw(t, "distinctHistories")
		var hs []historyCase
		for i := 0; i < k; i++ {
			hs = append(hs, genHistory(t, fmt.Sprintf("g%d", i), false, 3, 5))
		}
		g := rapid.SampledFrom([]int{4, 2, 8, 16, 3}).Draw(t, "goroutines")
		c := concHistoryCase{}
		for i := 0; i < g; i++ {
			c.Histories = append(c.Histories, hs[rapid.IntRange(0, k-1).Draw(t, fmt.Sprintf("assign%d", i))])
		}
		return c
	},
	Run: func(c concHistoryCase) *Violation {
		pendingCase("C10", "concurrent", c) // a race report halts the process: attribute it to this case
		return runConcHistoryCase(c)
	},
	Classify: func(c concHistoryCase) (bool, []string) {
		return len(c.Histories) >= 2, []string{fmt.Sprintf("goroutines=%d", len(c.Histories))}
	},
}

func TestC10Concurrent(t *testing.T) { c10conc.Rapid(t) }

func init() {
	c10.register()
	c10conc.register()
}

// Deterministic history: a batch whose segment exceeds 16 MiB (300 documents with a 64 KiB
// incompressible stored value each), then small batches on the same pooled builder.
func TestC10Fixed(t *testing.T) {
	col := stats.New("C10", "history")
	defer col.Write()
	big := &spec.BatchSpec{}
	x := uint32(12345)
	for d := 0; d < 300; d++ {
		v := make([]byte, 64<<10)
		for i := range v {
			x = x*1664525 + 1013904223
			v[i] = byte(x >> 24)
		}
		big.Docs = append(big.Docs, spec.DocSpec{ID: spec.B(fmt.Sprintf("big%03d", d)), Fields: []spec.FieldSpec{{Name: "blob", Type: 't', Stored: true, Value: v, Len: 1,
			Tokens: []spec.TokenSpec{{Term: spec.B(fmt.Sprintf("t%d", d%7)), Freq: 1}}}}})
	}
	small := func(id string) *spec.BatchSpec {
		return &spec.BatchSpec{Docs: []spec.DocSpec{{ID: spec.B(id), Fields: []spec.FieldSpec{{Name: "f", Type: 't', Stored: true, DV: true, Value: []byte("v" + id), Len: 2,
			Tokens: []spec.TokenSpec{{Term: "a", Freq: 1, Locs: []spec.LocSpec{{Pos: 1, Start: 0, End: 1}}}, {Term: spec.B(id), Freq: 1}}}}},
			{ID: spec.B(id + "b"), Fields: []spec.FieldSpec{{Name: "f", Type: 't', Len: 1, Tokens: []spec.TokenSpec{{Term: "a", Freq: 1}}}}}}}
	}
	c := historyCase{Steps: []buildStep{{Batch: small("s0")}, {Batch: big}, {Batch: small("s1")}, {Batch: &spec.BatchSpec{}}, {Batch: small("s2")}}}
	col.CaseHash(stats.HashJSON("fixed-huge-then-small"), true, []string{"segment>16MiB-then-small"}, func() any {
		return "builds: small, 300 documents x 64 KiB stored value (image > 16 MiB), small, empty, small"
	})
	reportBig(t, col, "C10", "history", c, safeRun(c10, c))
}
