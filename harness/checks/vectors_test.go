//go:build vectors

package checks

import (
	"fmt"
	"reflect"
	"sort"

	"github.com/RoaringBitmap/roaring/v2"
	faiss "github.com/blevesearch/go-faiss"
	segment "github.com/blevesearch/scorch_segment_api/v2"

	"verifharness/drive"
	"verifharness/indep"
	"verifharness/spec"
)

const vectorsMaybe = 1
const vectorsBuild = true

func fakeReset()              { faiss.VerifReset() }
func fakeLive() int64         { return faiss.VerifLive() }
func fakeOnOp(f func(string)) { faiss.VerifOnOp(f) }
func fakeOpCount() int64 {
	var n int64
	for op, c := range faiss.VerifOpCounts() {
		if op != "Close" {
			n += c
		}
	}
	return n
}

// ---------------------------------------------------------------------------
// model of vector search

type vecPair struct {
	Doc   uint64  `json:"d"`
	Score float32 `json:"s"`
}

// vecScore replicates the engine's arithmetic: float32 accumulation in
// coordinate order; squared L2 (smaller is better) or dot product (larger is better).
func vecScore(metric string, q, v []float32) float32 {
	var sum float32
	if metric == "l2_norm" {
		for i := range q {
			d := q[i] - v[i]
			sum += float32(d * d)
		}
		return sum
	}
	for i := range q {
		sum += float32(q[i] * v[i])
	}
	return sum
}

// better reports whether score a ranks strictly before b.
func better(metric string, a, b float32) bool {
	if metric == "l2_norm" {
		return a < b
	}
	return a > b
}

func sortPairsV(p []vecPair) {
	sort.Slice(p, func(i, j int) bool {
		if p[i].Doc != p[j].Doc {
			return p[i].Doc < p[j].Doc
		}
		return p[i].Score < p[j].Score
	})
}

// vecSearch runs one search through the public API and returns the (doc, score) pairs.
func vecSearch(seg segment.Segment, field string, q []float32, k int64, except *roaring.Bitmap, filter bool, eligible []uint64) ([]vecPair, error) {
	return vecSearchOpen(seg, field, q, k, except, filter, filter, eligible)
}

// vecSearchOpen separates how the handle is opened (requiresFiltering) from
// which search is run through it: a plain Search through a filtering-capable
// handle is legitimate API use.
func vecSearchOpen(seg segment.Segment, field string, q []float32, k int64, except *roaring.Bitmap, openFilter, filter bool, eligible []uint64) ([]vecPair, error) {
	vs, ok := seg.(segment.VectorSegment)
	if !ok {
		return nil, fmt.Errorf("%T is no VectorSegment", seg)
	}
	// what the caller passes in stays the caller's: exclusion bitmap, query vector, eligible list
	var exBefore *roaring.Bitmap
	if except != nil {
		exBefore = except.Clone()
	}
	qBefore := append([]float32(nil), q...)
	elBefore := append([]uint64(nil), eligible...)
	vi, err := vs.InterpretVectorIndex(field, openFilter, except)
	if err != nil {
		if vi != nil {
			vi.Close()
		}
		return nil, fmt.Errorf("InterpretVectorIndex(%q): %w", field, err)
	}
	if except != nil && !except.Equals(exBefore) {
		vi.Close()
		return nil, fmt.Errorf("INPUT-MODIFIED: the caller's exclusion bitmap changed from %v to %v", exBefore, except)
	}
	// the handle was given the exclusions as they were when it was opened; the caller is free to
	// reuse its bitmap object afterwards (here: for the complement of what it held)
	if except != nil {
		scribble := roaring.New()
		scribble.AddRange(0, 64)
		scribble.AndNot(exBefore)
		except.Clear()
		except.Or(scribble)
	}
	out, err := searchHandle(vi, q, k, filter, eligible)
	vi.Close()
	if except != nil {
		except.Clear()
		except.Or(exBefore)
	}
	if err != nil {
		return nil, err
	}
	if !reflect.DeepEqual(qBefore, append([]float32(nil), q...)) {
		return nil, fmt.Errorf("INPUT-MODIFIED: the caller's query vector changed from %v to %v", qBefore, q)
	}
	if !reflect.DeepEqual(elBefore, append([]uint64(nil), eligible...)) {
		return nil, fmt.Errorf("INPUT-MODIFIED: the caller's eligible list changed from %v to %v", elBefore, eligible)
	}
	return out, nil
}

func searchHandle(vi segment.VectorIndex, q []float32, k int64, filter bool, eligible []uint64) ([]vecPair, error) {
	pl, err := startSearch(vi, q, k, filter, eligible)
	if err != nil {
		return nil, err
	}
	return readVecList(pl)
}

// startSearch runs the search and returns the result list unread.
func startSearch(vi segment.VectorIndex, q []float32, k int64, filter bool, eligible []uint64) (segment.VecPostingsList, error) {
	if filter {
		return vi.SearchWithFilter(q, k, eligible, nil)
	}
	return vi.Search(q, k, nil)
}

// readVecList drains a result list into sorted (doc, score) pairs.
func readVecList(pl segment.VecPostingsList) ([]vecPair, error) {
	return readVecListWith(pl, nil)
}

// readVecListWith does the same through an iterator recycled from an earlier result.
func readVecListWith(pl segment.VecPostingsList, prealloc segment.VecPostingsIterator) ([]vecPair, error) {
	itr := pl.Iterator(prealloc)
	var out []vecPair
	for {
		p, err := itr.Next()
		if err != nil {
			return nil, err
		}
		if p == nil {
			break
		}
		out = append(out, vecPair{Doc: p.Number(), Score: p.Score()})
		if len(out) > 1<<20 {
			return nil, fmt.Errorf("runaway vector postings iteration")
		}
	}
	if pl.Count() != uint64(len(out)) {
		return nil, fmt.Errorf("VecPostingsList.Count()=%d but iteration yields %d", pl.Count(), len(out))
	}
	sortPairsV(out)
	return out, nil
}

// vecOracle is the validity predicate of C14 over a returned pair set.
// entries: the field's vectors in the segment; live: doc not excluded and eligible;
// exact: the index is an exact one (fewer than 1000 vectors in the field).
func vecOracle(entries []spec.VecEntry, metric string, q []float32, k int64, live func(uint64) bool, exact bool, got []vecPair) string {
	type cand struct {
		doc   uint64
		score float32
	}
	var cands []cand
	for _, e := range entries {
		if live(e.Doc) {
			cands = append(cands, cand{e.Doc, vecScore(metric, q, e.Vec)})
		}
	}
	truePairs := map[vecPair]int{}
	for _, c := range cands {
		truePairs[vecPair{c.doc, c.score}]++
	}
	seen := map[vecPair]bool{}
	for _, g := range got {
		if seen[g] {
			return fmt.Sprintf("pair %+v returned twice", g)
		}
		seen[g] = true
		if truePairs[g] == 0 {
			return fmt.Sprintf("returned pair (doc %d, score %v) is not the score of any vector of a live document (candidates %d)", g.Doc, g.Score, len(cands))
		}
	}
	if k <= 0 {
		if len(got) != 0 {
			return fmt.Sprintf("k=%d but %d pairs returned", k, len(got))
		}
		return ""
	}
	if int64(len(got)) > k {
		return fmt.Sprintf("%d pairs returned for k=%d", len(got), k)
	}
	if !exact {
		return ""
	}
	sort.Slice(cands, func(i, j int) bool { return better(metric, cands[i].score, cands[j].score) })
	kk := int(k)
	if kk > len(cands) {
		kk = len(cands)
	}
	if kk == 0 {
		if len(got) != 0 {
			return fmt.Sprintf("no live vectors but %d pairs returned", len(got))
		}
		return ""
	}
	kth := cands[kk-1].score
	nBetter := 0
	betterSet := map[vecPair]bool{}
	tieMult := map[vecPair]int{}
	for _, c := range cands {
		switch {
		case better(metric, c.score, kth):
			nBetter++
			betterSet[vecPair{c.doc, c.score}] = true
		case c.score == kth:
			tieMult[vecPair{c.doc, c.score}]++
		}
	}
	for p := range betterSet {
		if !seen[p] {
			return fmt.Sprintf("pair (doc %d, score %v) is strictly better than the k-th best score %v (k=%d, %d live vectors) but was not returned; got %v", p.Doc, p.Score, kth, k, len(cands), got)
		}
	}
	tiesReturned := 0
	for _, g := range got {
		if betterSet[g] {
			continue
		}
		if g.Score != kth {
			return fmt.Sprintf("returned pair (doc %d, score %v) is worse than the k-th best score %v (k=%d)", g.Doc, g.Score, kth, k)
		}
		tiesReturned++
	}
	// exactly kk vectors are selected: all better ones plus m from the tie group
	m := kk - nBetter
	var mults []int
	for _, c := range tieMult {
		mults = append(mults, c)
	}
	sort.Sort(sort.Reverse(sort.IntSlice(mults)))
	minDistinct, acc := 0, 0
	for _, c := range mults {
		if acc >= m {
			break
		}
		acc += c
		minDistinct++
	}
	maxDistinct := m
	if len(mults) < maxDistinct {
		maxDistinct = len(mults)
	}
	if tiesReturned < minDistinct || tiesReturned > maxDistinct {
		return fmt.Sprintf("k=%d with %d live vectors: %d strictly better vectors and %d tie pairs returned, but exactly %d vectors at the k-th score %v must be selected (between %d and %d distinct pairs); got %v", k, len(cands), nBetter, tiesReturned, m, kth, minDistinct, maxDistinct, got)
	}
	return ""
}

type fieldStats struct{ m map[string]map[string]uint64 }

func (f *fieldStats) Store(statName, fieldName string, value uint64) {
	if f.m == nil {
		f.m = map[string]map[string]uint64{}
	}
	if f.m[statName] == nil {
		f.m[statName] = map[string]uint64{}
	}
	f.m[statName][fieldName] = value
}
func (f *fieldStats) Aggregate(segment.FieldStats)        {}
func (f *fieldStats) Fetch() map[string]map[string]uint64 { return f.m }

// numVectorsStat returns the per-field num_vectors statistic of a segment.
func numVectorsStat(seg segment.Segment) (map[string]uint64, error) {
	r, ok := seg.(segment.FieldStatsReporter)
	if !ok {
		return nil, fmt.Errorf("%T reports no field stats", seg)
	}
	fs := &fieldStats{}
	r.UpdateFieldStats(fs)
	return fs.m["num_vectors"], nil
}

func isExact(vf *spec.VecField) bool { return vf == nil || len(vf.Entries) < 1000 }

func allLive(uint64) bool { return true }

// probeQueries are deterministic queries for a field (used where no generated queries exist).
func probeQueries(vf *spec.VecField) [][]float32 {
	var out [][]float32
	if len(vf.Entries) > 0 {
		out = append(out, append([]float32(nil), vf.Entries[0].Vec...))
		out = append(out, append([]float32(nil), vf.Entries[len(vf.Entries)/2].Vec...))
	}
	z := make([]float32, vf.Dim)
	if vf.Metric == "cosine" {
		z[0] = 1
	}
	out = append(out, z)
	o := make([]float32, vf.Dim)
	for i := range o {
		o[i] = float32(1 + i)
	}
	if vf.Metric == "cosine" {
		o = make([]float32, vf.Dim)
		o[vf.Dim-1] = -1
	}
	return append(out, o)
}

// vectorSegmentCheck: the segment's vector fields hold exactly the model's vectors
// (probes with k = all on exact indexes force the complete pair set), the
// statistic matches, and no other field answers vector searches.
func vectorSegmentCheck(prop string, seg segment.Segment, want *spec.Obs, where string) *Violation {
	var v *Violation
	err := drive.Safe(func() error {
		stat, err := numVectorsStat(seg)
		if err != nil {
			return err
		}
		for _, f := range seg.Fields() {
			vf := want.Vec[f]
			if vf == nil || len(vf.Entries) == 0 {
				if n, ok := stat[f]; ok {
					v = violation(prop, "vec/stat-for-field-without-vectors", "%s: field %q has no vectors in the model but reports num_vectors=%d", where, f, n)
					return nil
				}
				got, err := vecSearch(seg, f, []float32{1}, 3, nil, false, nil)
				if err != nil {
					return err
				}
				for d := 2; d <= 4 && len(got) == 0; d++ {
					got, err = vecSearch(seg, f, make([]float32, d), 3, nil, false, nil)
					if err != nil {
						return err
					}
				}
				if len(got) != 0 {
					v = violation(prop, "vec/search-on-field-without-vectors", "%s: field %q has no vectors in the model but a vector search returned %v", where, f, got)
					return nil
				}
				continue
			}
			if stat[f] != uint64(len(vf.Entries)) {
				v = violation(prop, "vec/num-vectors", "%s: field %q reports num_vectors=%d, the model has %d vectors", where, f, stat[f], len(vf.Entries))
				return nil
			}
			probes, ks := probeQueries(vf), []int64{int64(len(vf.Entries)) + 2, 1, 2}
			if len(vf.Entries) > 50000 {
				// every search opens the field anew, and zapx spends seconds per opening here
				probes, ks = probes[:1], ks[:1]
			}
			for qi, q := range probes {
				for _, k := range ks {
					got, err := vecSearch(seg, f, q, k, nil, false, nil)
					if err != nil {
						return fmt.Errorf("search %q: %w", f, err)
					}
					if m := vecOracle(vf.Entries, vf.Metric, q, k, allLive, isExact(vf), got); m != "" {
						v = violation(prop, "vec/search-mismatch", "%s: field %q probe %d %v k=%d: %s", where, f, qi, q, k, m)
						return nil
					}
				}
			}
			// wrong dimension
			got, err := vecSearch(seg, f, make([]float32, vf.Dim+1), 3, nil, false, nil)
			if err != nil {
				return err
			}
			if len(got) != 0 {
				v = violation(prop, "vec/wrong-dimension", "%s: field %q (dim %d) answered a query of dimension %d with %v", where, f, vf.Dim, vf.Dim+1, got)
				return nil
			}
		}
		for f, vf := range want.Vec {
			if len(vf.Entries) == 0 {
				continue
			}
			found := false
			for _, sf := range seg.Fields() {
				if sf == f {
					found = true
				}
			}
			if !found {
				v = violation(prop, "vec/field-missing", "%s: vector field %q is not among the segment's fields", where, f)
				return nil
			}
		}
		return nil
	})
	if err != nil {
		return violation(prop, "vec/error", "%s: %v", where, err)
	}
	return v
}

// vectorEquivalence (C04): in-memory and re-opened segments answer vector searches identically and as the model says.
func vectorEquivalence(prop string, b *spec.BatchSpec, want *spec.Obs, mem, opened segment.Segment) *Violation {
	if v := vectorSegmentCheck(prop, mem, want, "in-memory"); v != nil {
		return v
	}
	if v := vectorSegmentCheck(prop, opened, want, "re-opened"); v != nil {
		return v
	}
	var v *Violation
	err := drive.Safe(func() error {
		for f, vf := range want.Vec {
			for qi, q := range probeQueries(vf) {
				for _, k := range []int64{1, 2, int64(len(vf.Entries))} {
					a, err := vecSearch(mem, f, q, k, nil, false, nil)
					if err != nil {
						return err
					}
					bb, err := vecSearch(opened, f, q, k, nil, false, nil)
					if err != nil {
						return err
					}
					if fmt.Sprint(a) != fmt.Sprint(bb) {
						v = violation(prop, "vec/mem-vs-mmap", "field %q probe %d k=%d: in-memory %v, re-opened %v", f, qi, k, a, bb)
						return nil
					}
				}
			}
		}
		return nil
	})
	if err != nil {
		return violation(prop, "vec/error", "%v", err)
	}
	return v
}

// checkVectorEnvelope (C09): the documented envelope of every vector section
// (id table, index length) matches the model; the opaque index blob is the
// fake engine's and is only used to reconstruct the vectors behind the ids.
func checkVectorEnvelope(prop, tag string, f *indep.File, want *spec.Obs) *Violation {
	for _, fi := range f.Fields {
		vf := want.Vec[fi.Name]
		if fi.Vector == nil {
			if vf != nil && len(vf.Entries) > 0 {
				return violation(prop, "indep/vector-section-missing", "%s: field %q has %d vectors in the model but no vector section in the file", tag, fi.Name, len(vf.Entries))
			}
			continue
		}
		if vf == nil || len(vf.Entries) == 0 {
			return violation(prop, "indep/vector-section-unexpected", "%s: field %q has a vector section with %d ids but no vectors in the model", tag, fi.Name, len(fi.Vector.Entries))
		}
		if len(fi.Vector.Entries) != len(vf.Entries) {
			return violation(prop, "indep/vector-count", "%s: field %q: id table has %d entries, the model %d vectors", tag, fi.Name, len(fi.Vector.Entries), len(vf.Entries))
		}
		optWant := map[string]uint64{"recall": 0, "latency": 1, "memory-efficient": 2}[vf.Opt]
		if fi.Vector.Optimization != optWant {
			return violation(prop, "indep/vector-optimization", "%s: field %q: optimisation type %d, want %d", tag, fi.Name, fi.Vector.Optimization, optWant)
		}
		idx, err := faiss.ReadIndexFromBuffer(fi.Vector.IndexBytes, 0)
		if err != nil {
			return violation(prop, "indep/vector-index-bytes", "%s: field %q: the index bytes delimited by the envelope are not a serialized index: %v", tag, fi.Name, err)
		}
		gotSet := map[string]int{}
		for _, e := range fi.Vector.Entries {
			vec, err := idx.Reconstruct(e.VecID)
			if err != nil {
				idx.Close()
				return violation(prop, "indep/vector-id-table", "%s: field %q: id %d of the id table is unknown to the index: %v", tag, fi.Name, e.VecID, err)
			}
			gotSet[fmt.Sprint(e.Doc, vec)]++
		}
		idx.Close()
		wantSet := map[string]int{}
		for _, e := range vf.Entries {
			wantSet[fmt.Sprint(e.Doc, e.Vec)]++
		}
		for k, n := range wantSet {
			if gotSet[k] != n {
				return violation(prop, "indep/vector-content", "%s: field %q: (doc, vector) %s occurs %d times via the id table, %d times in the model", tag, fi.Name, k, gotSet[k], n)
			}
		}
	}
	return nil
}

// faissMisuse reports engine-level misuse seen since the last reset ("" if none).
func faissMisuse() string {
	if n := faiss.VerifDoubleClosed(); n > 0 {
		return fmt.Sprintf("%d native index(es) were closed twice", n)
	}
	if n := faiss.VerifUsedAfterClose(); n > 0 {
		return fmt.Sprintf("%d call(s) on an already closed native index", n)
	}
	if n := faiss.VerifClosedInUse(); n > 0 {
		return fmt.Sprintf("%d native index(es) were closed while an operation was in flight on them", n)
	}
	if n := faiss.VerifSelectorMisuse(); n > 0 {
		return fmt.Sprintf("%d selector misuse(s) (double delete / use after delete)", n)
	}
	return ""
}
