//go:build vectors

package checks

import (
	segment "github.com/blevesearch/scorch_segment_api/v2"

	"verifharness/indep"
	"verifharness/spec"
)

const vectorsMaybe = 1
const vectorsBuild = true

func vectorEquivalence(prop string, b *spec.BatchSpec, want *spec.Obs, mem, opened segment.Segment) *Violation {
	return nil // replaced by the C14 machinery below when built
}

func checkVectorEnvelope(prop, tag string, f *indep.File, want *spec.Obs) *Violation { return nil }

func vectorSegmentCheck(prop string, seg segment.Segment, want *spec.Obs, where string) *Violation {
	return nil
}
