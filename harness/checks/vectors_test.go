//go:build vectors

package checks

import (
	faiss "github.com/blevesearch/go-faiss"
	segment "github.com/blevesearch/scorch_segment_api/v2"

	"verifharness/indep"
	"verifharness/spec"
)

const vectorsMaybe = 1
const vectorsBuild = true

func vectorEquivalence(prop string, b *spec.BatchSpec, want *spec.Obs, mem, opened segment.Segment) *Violation {
	return nil // replaced by the C14 machinery below when built
}

func checkVectorEnvelope(prop, tag string, f *indep.File, want *spec.Obs) *Violation { return nil }

func vectorSegmentCheck(prop string, seg segment.Segment, want *spec.Obs, where string) *Violation {
	return nil
}

func fakeReset()              { faiss.VerifReset() }
func fakeLive() int64         { return faiss.VerifLive() }
func fakeOnOp(f func(string)) { faiss.VerifOnOp(f) }
func fakeOpCount() int64 {
	var n int64
	for op, c := range faiss.VerifOpCounts() {
		if op != "Close" {
			n += c
		}
	}
	return n
}
