// Package spec holds the plain-data specifications of batches, documents and
// merge plans that every check generates, replays and feeds to both the real
// zapx code (through package drive) and the reference model (model.go).
package spec

import (
	"encoding/json"
	"fmt"
	"sort"
	"strconv"
)

// B is a byte string that survives JSON losslessly (Go-quoted ASCII form).
type B string

func (b B) MarshalJSON() ([]byte, error) {
	q := strconv.QuoteToASCII(string(b))
	return json.Marshal(q[1 : len(q)-1])
}

func (b *B) UnmarshalJSON(data []byte) error {
	var s string
	if err := json.Unmarshal(data, &s); err != nil {
		return err
	}
	u, err := strconv.Unquote(`"` + s + `"`)
	if err != nil {
		return err
	}
	*b = B(u)
	return nil
}

// Field kinds.
const (
	KindText = 0 // ordinary analysed field (also used for composite fields)
	KindSyn  = 1 // synonym field (only inside synonym documents)
	KindVec  = 2 // vector field
)

type LocSpec struct {
	Field string   `json:"f,omitempty"` // "" = the field the token occurs in
	Pos   int      `json:"p"`
	Start int      `json:"s"`
	End   int      `json:"e"`
	AP    []uint64 `json:"ap,omitempty"`
}

type TokenSpec struct {
	Term B         `json:"t"` // raw bytes
	Freq int       `json:"n"`
	Locs []LocSpec `json:"l,omitempty"`
}

type SynDef struct {
	Term B   `json:"t"`
	Syns []B `json:"s"`
}

type VecSpec struct {
	Dim    int       `json:"dim"`
	Data   []float32 `json:"data"` // k*Dim values
	Metric string    `json:"metric"`
	Opt    string    `json:"opt"`
}

type FieldSpec struct {
	Name   string      `json:"name"`
	Kind   int         `json:"kind,omitempty"`
	Value  []byte      `json:"val,omitempty"`
	Type   byte        `json:"typ,omitempty"`
	AP     []uint64    `json:"ap,omitempty"`
	Stored bool        `json:"st,omitempty"`
	DV     bool        `json:"dv,omitempty"`
	Len    int         `json:"len,omitempty"`
	Tokens []TokenSpec `json:"tok,omitempty"`
	Syn    []SynDef    `json:"syn,omitempty"`
	Vec    *VecSpec    `json:"vec,omitempty"`
	// Shape, when set, makes the field a geo-shape field: the encoded shape is
	// not a dictionary term but is carried as an extra doc value of the document
	// (only if the field has doc values).
	Shape []byte `json:"shape,omitempty"`
}

type DocSpec struct {
	ID        B           `json:"id"`
	IDLast    bool        `json:"idlast,omitempty"` // _id field visited last instead of first
	IDDV      bool        `json:"iddv,omitempty"`   // the _id field is indexed with doc values
	Composite []FieldSpec `json:"comp,omitempty"`
	Fields    []FieldSpec `json:"fields,omitempty"`
}

// WideSpec is a parametric description of many tiny documents; it keeps case
// files small while producing postings lists with cardinality > 1024.
type WideSpec struct {
	N      int  `json:"n"`      // number of documents
	Period int  `json:"period"` // doc i carries term "p<i%Period>"
	Every  int  `json:"every"`  // doc i carries term "e" iff i%Every==0
	Locs   bool `json:"locs"`   // term vectors on
	DV     bool `json:"dv"`
	Stored bool `json:"stored"`
	Gap    int  `json:"gap"` // docs with i%Gap==Gap-1 have no "wf" field at all (0 = none)
	IDDV   bool `json:"iddv,omitempty"`
	Multi  bool `json:"multi,omitempty"` // the field occurs twice per document, both instances carry the dense term
}

// VecWideSpec is a parametric description of many one-vector documents (so
// that a field's index crosses the 1000-vector threshold and becomes a
// clustered index). Vectors come from a fixed linear congruential sequence.
type VecWideSpec struct {
	N      int    `json:"n"`
	Field  string `json:"field"`
	Dim    int    `json:"dim"`
	Metric string `json:"metric"`
	Opt    string `json:"opt"`
	Seed   uint32 `json:"seed"`
	Every  int    `json:"every"`           // docs with i%Every==Every-1 carry no vector (0 = all carry one)
	Multi  int    `json:"multi,omitempty"` // docs with i%Multi==1 carry a second vector in the field (0 = none)
	Same   bool   `json:"same,omitempty"`  // every vector is the same one (1, 0, ..., 0)
}

// SynWideSpec is a parametric description of many synonym documents that all
// define the same left-hand term with the same synonyms, so that one term's
// synonym postings exceed 1024 (synonym, document) pairs.
type SynWideSpec struct {
	N    int    `json:"n"`    // documents
	Syns int    `json:"syns"` // synonyms per document
	Thes string `json:"thes"`
	Term string `json:"term"`
}

func (w *SynWideSpec) expand() []DocSpec {
	out := make([]DocSpec, 0, w.N)
	syns := make([]B, w.Syns)
	for j := range syns {
		syns[j] = B(fmt.Sprintf("sw%03d", j))
	}
	for i := 0; i < w.N; i++ {
		out = append(out, DocSpec{ID: B(fmt.Sprintf("y%05d", i)), IDLast: true,
			Fields: []FieldSpec{{Name: w.Thes, Kind: KindSyn, Syn: []SynDef{{Term: B(w.Term), Syns: syns}}}}})
	}
	return out
}

type BatchSpec struct {
	Docs    []DocSpec    `json:"docs,omitempty"`
	Wide    *WideSpec    `json:"wide,omitempty"`
	VecWide *VecWideSpec `json:"vecWide,omitempty"`
	SynWide *SynWideSpec `json:"synWide,omitempty"`
}

func (w *VecWideSpec) expand() []DocSpec {
	out := make([]DocSpec, 0, w.N)
	x := w.Seed*2654435761 + 12345
	next := func() uint32 {
		x = x*1664525 + 1013904223
		return x >> 16
	}
	for i := 0; i < w.N; i++ {
		d := DocSpec{ID: B(fmt.Sprintf("v%06d", i))}
		if w.Every > 0 && i%w.Every == w.Every-1 {
			out = append(out, d)
			continue
		}
		nv := 1
		if w.Multi > 0 && i%w.Multi == 1 {
			nv = 2
		}
		for ; nv > 0; nv-- {
			v := make([]float32, w.Dim)
			if w.Same {
				v[0] = 1
			} else if w.Metric == "cosine" {
				a := int(next()) % w.Dim
				if next()%2 == 0 {
					v[a] = 1
				} else {
					v[a] = -1
				}
			} else {
				for j := range v {
					v[j] = float32(int(next()%41) - 20)
				}
			}
			d.Fields = append(d.Fields, FieldSpec{Name: w.Field, Kind: KindVec, Vec: &VecSpec{Dim: w.Dim, Data: v, Metric: w.Metric, Opt: w.Opt}})
		}
		out = append(out, d)
	}
	return out
}

// IDField is the synthesized _id field of a document.
func IDField(id B) FieldSpec {
	return FieldSpec{
		Name: "_id", Value: []byte(id), Type: 't', Stored: true, Len: 1,
		Tokens: []TokenSpec{{Term: id, Freq: 1}},
	}
}

// EffFields returns the document's plain fields including the synthesized _id.
func (d *DocSpec) EffFields() []FieldSpec {
	out := make([]FieldSpec, 0, len(d.Fields)+1)
	idf := IDField(d.ID)
	idf.DV = d.IDDV
	if !d.IDLast {
		out = append(out, idf)
	}
	out = append(out, d.Fields...)
	if d.IDLast {
		out = append(out, idf)
	}
	return out
}

// IsSyn reports whether the document is a synonym document.
func (d *DocSpec) IsSyn() bool {
	for i := range d.Fields {
		if d.Fields[i].Kind == KindSyn {
			return true
		}
	}
	return false
}

// WideFieldName is the field used by wide batches.
const WideFieldName = "wf"

func (w *WideSpec) expand() []DocSpec {
	out := make([]DocSpec, 0, w.N)
	for i := 0; i < w.N; i++ {
		d := DocSpec{ID: B(fmt.Sprintf("w%06d", i)), IDDV: w.IDDV}
		if w.Gap > 0 && i%w.Gap == w.Gap-1 {
			out = append(out, d)
			continue
		}
		f := FieldSpec{Name: WideFieldName, Type: 't', DV: w.DV, Stored: w.Stored}
		if w.Stored {
			f.Value = []byte(fmt.Sprintf("v%d", i))
		}
		add := func(term string, freq int) {
			t := TokenSpec{Term: B(term), Freq: freq}
			if w.Locs {
				for j := 0; j < freq; j++ {
					t.Locs = append(t.Locs, LocSpec{Pos: len(f.Tokens)*3 + j + 1, Start: i % 97, End: i%97 + len(term)})
				}
			}
			f.Tokens = append(f.Tokens, t)
			f.Len += freq
		}
		add("all", 1+i%3)
		if w.Period > 0 {
			add(fmt.Sprintf("p%d", i%w.Period), 1)
		}
		if w.Every > 0 && i%w.Every == 0 {
			add("e", 2)
		}
		d.Fields = []FieldSpec{f}
		if w.Multi {
			g := FieldSpec{Name: WideFieldName, Type: 't', DV: w.DV, AP: []uint64{1}, Len: 2,
				Tokens: []TokenSpec{{Term: "all", Freq: 1}, {Term: B(fmt.Sprintf("m%d", i%3)), Freq: 1}}}
			if w.Locs {
				g.Tokens[0].Locs = []LocSpec{{Pos: 7, Start: 128, End: 131, AP: []uint64{1}}}
			}
			d.Fields = append(d.Fields, g)
		}
		out = append(out, d)
	}
	return out
}

// AllDocs returns the explicit documents followed by the wide expansion.
func (b *BatchSpec) AllDocs() []DocSpec {
	if b.Wide == nil && b.VecWide == nil && b.SynWide == nil {
		return b.Docs
	}
	out := append([]DocSpec(nil), b.Docs...)
	if b.Wide != nil {
		out = append(out, b.Wide.expand()...)
	}
	if b.VecWide != nil {
		out = append(out, b.VecWide.expand()...)
	}
	if b.SynWide != nil {
		out = append(out, b.SynWide.expand()...)
	}
	return out
}

// NumDocs is len(AllDocs()) without expanding.
func (b *BatchSpec) NumDocs() int {
	n := len(b.Docs)
	if b.Wide != nil {
		n += b.Wide.N
	}
	if b.VecWide != nil {
		n += b.VecWide.N
	}
	if b.SynWide != nil {
		n += b.SynWide.N
	}
	return n
}

// DropSpec is a deletion bitmap: Nil means a nil bitmap, otherwise the listed
// document numbers (possibly none = empty bitmap).
type DropSpec struct {
	Nil  bool     `json:"nil,omitempty"`
	Docs []uint32 `json:"docs,omitempty"`
}

// MergePlan is a tree: a leaf is a batch built in memory or persisted+opened,
// an inner node merges its children with per-child deletion bitmaps.
type MergePlan struct {
	Leaf      *BatchSpec  `json:"leaf,omitempty"`
	Mmap      bool        `json:"mmap,omitempty"`      // leaf: persist and open instead of in-memory
	Child     bool        `json:"child,omitempty"`     // leaf: built and persisted by ANOTHER process (a file from before a restart), then opened
	ChunkMode uint32      `json:"chunkMode,omitempty"` // leaf build / merge chunk mode
	Children  []MergePlan `json:"children,omitempty"`
	Drops     []DropSpec  `json:"drops,omitempty"`
}

func (p *MergePlan) IsLeaf() bool { return p.Leaf != nil }

// Depth of the plan tree (leaf = 0).
func (p *MergePlan) Depth() int {
	if p.IsLeaf() {
		return 0
	}
	d := 0
	for i := range p.Children {
		if c := p.Children[i].Depth(); c > d {
			d = c
		}
	}
	return d + 1
}

// SortedStrings returns a sorted copy (byte order, like sort.Strings).
func SortedStrings(in []string) []string {
	out := append([]string(nil), in...)
	sort.Strings(out)
	return out
}
