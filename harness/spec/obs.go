package spec

import (
	"bytes"
	"fmt"
	"math"
	"reflect"
	"sort"
)

// Obs is the canonical record of everything the segment API can say about a
// segment. It is produced by the reference model (model.go), by observing a
// real zapx segment (package drive) and by the independent reader.

type Loc struct {
	Field string   `json:"f"`
	Pos   uint64   `json:"p"`
	Start uint64   `json:"s"`
	End   uint64   `json:"e"`
	AP    []uint64 `json:"ap,omitempty"` // nil when empty
}

type Hit struct {
	Doc  uint64  `json:"d"`
	Freq uint64  `json:"n"`
	Norm float64 `json:"norm"` // 0 when Freq==0 (the format stores no norm then)
	Locs []Loc   `json:"l,omitempty"`
}

type StoredVal struct {
	Field string   `json:"f"`
	Typ   byte     `json:"t"`
	Val   []byte   `json:"v"`
	AP    []uint64 `json:"ap,omitempty"`
}

type SynPair struct {
	Syn string `json:"s"`
	Doc uint32 `json:"d"`
}

type VecEntry struct {
	Doc uint64    `json:"d"`
	Vec []float32 `json:"v"`
}

type VecField struct {
	Dim     int        `json:"dim"`
	Metric  string     `json:"metric"`
	Opt     string     `json:"opt"`
	Entries []VecEntry `json:"e"` // in (doc, input) order
}

type Obs struct {
	Count    uint64
	Fields   []string                        // _id first, rest ascending; nil for an empty segment
	Index    map[string]map[string][]Hit     // field -> term -> hits (fields without terms omitted)
	Stored   [][]StoredVal                   // per document, _id first
	DVFields []string                        // sorted
	DV       map[string]map[uint64][]string  // field -> doc -> sorted terms (empty entries omitted)
	Thes     map[string]map[string][]SynPair // thesaurus -> term -> sorted pairs
	Vec      map[string]*VecField            // model only
}

// NormOf is the documented field-length norm 1/sqrt(len) at float32 precision.
func NormOf(length uint64) float64 {
	return float64(float32(1.0 / math.Sqrt(float64(length))))
}

func normAP(ap []uint64) []uint64 {
	if len(ap) == 0 {
		return nil
	}
	return ap
}

// Normalize puts the observation in canonical form (nil for empty slices,
// empty map entries removed, sets sorted).
func (o *Obs) Normalize() {
	if len(o.Fields) == 0 {
		o.Fields = nil
	}
	for f, terms := range o.Index {
		for t, hits := range terms {
			if len(hits) == 0 {
				delete(terms, t)
				continue
			}
			for i := range hits {
				if len(hits[i].Locs) == 0 {
					hits[i].Locs = nil
				}
				for j := range hits[i].Locs {
					hits[i].Locs[j].AP = normAP(hits[i].Locs[j].AP)
				}
				if hits[i].Freq == 0 {
					hits[i].Norm = 0
				}
			}
		}
		if len(terms) == 0 {
			delete(o.Index, f)
		}
	}
	for d := range o.Stored {
		for i := range o.Stored[d] {
			o.Stored[d][i].AP = normAP(o.Stored[d][i].AP)
			if o.Stored[d][i].Val == nil {
				o.Stored[d][i].Val = []byte{}
			}
		}
	}
	sort.Strings(o.DVFields)
	if len(o.DVFields) == 0 {
		o.DVFields = nil
	}
	for f, docs := range o.DV {
		for d, terms := range docs {
			if len(terms) == 0 {
				delete(docs, d)
				continue
			}
			sort.Strings(terms)
		}
		if len(docs) == 0 {
			delete(o.DV, f)
		}
	}
	for n, terms := range o.Thes {
		for t, pairs := range terms {
			if len(pairs) == 0 {
				delete(terms, t)
				continue
			}
			sort.Slice(pairs, func(i, j int) bool {
				if pairs[i].Syn != pairs[j].Syn {
					return pairs[i].Syn < pairs[j].Syn
				}
				return pairs[i].Doc < pairs[j].Doc
			})
		}
		if len(terms) == 0 {
			delete(o.Thes, n)
		}
	}
}

func sortedKeys[V any](m map[string]V) []string {
	out := make([]string, 0, len(m))
	for k := range m {
		out = append(out, k)
	}
	sort.Strings(out)
	return out
}

// DiffOpts relaxes parts of the comparison.
type DiffOpts struct {
	SkipFields  bool       // do not compare Fields
	FieldsAnyOf [][]string // if set, got.Fields must equal one of these
	DVFieldsSub bool       // got.DVFields must be a superset of fields having DV content and a subset of want.DVFields
	SkipStored  bool
	SkipIndex   bool
	SkipDV      bool
	SkipThes    bool
}

// Diff returns "" when got matches want, else a description of the first difference.
func Diff(want, got *Obs, opt DiffOpts) string {
	if want.Count != got.Count {
		return fmt.Sprintf("Count: want %d got %d", want.Count, got.Count)
	}
	if len(opt.FieldsAnyOf) > 0 {
		ok := false
		for _, alt := range opt.FieldsAnyOf {
			if len(alt) == 0 && len(got.Fields) == 0 || reflect.DeepEqual(alt, got.Fields) {
				ok = true
			}
		}
		if !ok {
			return fmt.Sprintf("Fields: want one of %q got %q", opt.FieldsAnyOf, got.Fields)
		}
	} else if !opt.SkipFields && !reflect.DeepEqual(want.Fields, got.Fields) {
		return fmt.Sprintf("Fields: want %q got %q", want.Fields, got.Fields)
	}
	if !opt.SkipIndex {
		if d := diffIndex(want.Index, got.Index); d != "" {
			return d
		}
	}
	if !opt.SkipStored {
		if len(want.Stored) != len(got.Stored) {
			return fmt.Sprintf("Stored: want %d docs got %d", len(want.Stored), len(got.Stored))
		}
		for d := range want.Stored {
			w, g := want.Stored[d], got.Stored[d]
			if len(w) != len(g) {
				return fmt.Sprintf("Stored[doc %d]: want %d values got %d\n want %s\n got  %s", d, len(w), len(g), fmtStored(w), fmtStored(g))
			}
			for i := range w {
				if w[i].Field != g[i].Field || w[i].Typ != g[i].Typ || !bytes.Equal(w[i].Val, g[i].Val) || !reflect.DeepEqual(w[i].AP, g[i].AP) {
					return fmt.Sprintf("Stored[doc %d][%d]: want %s got %s", d, i, fmtStored(w[i:i+1]), fmtStored(g[i:i+1]))
				}
			}
		}
	}
	if !opt.SkipDV {
		if opt.DVFieldsSub {
			wantSet := map[string]bool{}
			for _, f := range want.DVFields {
				wantSet[f] = true
			}
			gotSet := map[string]bool{}
			for _, f := range got.DVFields {
				gotSet[f] = true
				if !wantSet[f] {
					return fmt.Sprintf("DVFields: %q listed but no input indexed it with doc values (inputs: %q)", f, want.DVFields)
				}
			}
			for f := range want.DV {
				if !gotSet[f] {
					return fmt.Sprintf("DVFields: %q has doc values in the model but is not listed (got %q)", f, got.DVFields)
				}
			}
		} else if !reflect.DeepEqual(want.DVFields, got.DVFields) {
			return fmt.Sprintf("DVFields: want %q got %q", want.DVFields, got.DVFields)
		}
		for _, f := range unionKeys(want.DV, got.DV) {
			w, g := want.DV[f], got.DV[f]
			docs := map[uint64]bool{}
			for d := range w {
				docs[d] = true
			}
			for d := range g {
				docs[d] = true
			}
			ds := make([]uint64, 0, len(docs))
			for d := range docs {
				ds = append(ds, d)
			}
			sort.Slice(ds, func(i, j int) bool { return ds[i] < ds[j] })
			for _, d := range ds {
				if !reflect.DeepEqual(w[d], g[d]) {
					return fmt.Sprintf("DV[%q][doc %d]: want %q got %q", f, d, w[d], g[d])
				}
			}
		}
	}
	if !opt.SkipThes {
		for _, n := range unionKeys(want.Thes, got.Thes) {
			w, g := want.Thes[n], got.Thes[n]
			for _, t := range unionKeys(w, g) {
				if !reflect.DeepEqual(w[t], g[t]) {
					return fmt.Sprintf("Thes[%q][%q]: want %v got %v", n, t, w[t], g[t])
				}
			}
		}
	}
	return ""
}

func unionKeys[V any](a, b map[string]V) []string {
	m := map[string]bool{}
	for k := range a {
		m[k] = true
	}
	for k := range b {
		m[k] = true
	}
	out := make([]string, 0, len(m))
	for k := range m {
		out = append(out, k)
	}
	sort.Strings(out)
	return out
}

func diffIndex(want, got map[string]map[string][]Hit) string {
	for _, f := range unionKeys(want, got) {
		w, g := want[f], got[f]
		for _, t := range unionKeys(w, g) {
			wh, gh := w[t], g[t]
			if d := DiffHits(wh, gh); d != "" {
				return fmt.Sprintf("Index[%q][%q]: %s", f, t, d)
			}
		}
	}
	return ""
}

// DiffHits compares two hit lists.
func DiffHits(wh, gh []Hit) string {
	if len(wh) != len(gh) {
		return fmt.Sprintf("want %d hits %v got %d hits %v", len(wh), hitDocs(wh), len(gh), hitDocs(gh))
	}
	for i := range wh {
		a, b := wh[i], gh[i]
		if a.Doc != b.Doc || a.Freq != b.Freq || a.Norm != b.Norm {
			return fmt.Sprintf("hit %d: want doc=%d freq=%d norm=%v got doc=%d freq=%d norm=%v", i, a.Doc, a.Freq, a.Norm, b.Doc, b.Freq, b.Norm)
		}
		if len(a.Locs) != len(b.Locs) {
			return fmt.Sprintf("hit %d (doc %d): want %d locs %v got %d locs %v", i, a.Doc, len(a.Locs), a.Locs, len(b.Locs), b.Locs)
		}
		for j := range a.Locs {
			if !reflect.DeepEqual(a.Locs[j], b.Locs[j]) {
				return fmt.Sprintf("hit %d (doc %d) loc %d: want %+v got %+v", i, a.Doc, j, a.Locs[j], b.Locs[j])
			}
		}
	}
	return ""
}

func hitDocs(h []Hit) []uint64 {
	out := make([]uint64, len(h))
	for i := range h {
		out[i] = h[i].Doc
	}
	if len(out) > 20 {
		out = out[:20]
	}
	return out
}

func fmtStored(v []StoredVal) string {
	s := "["
	for i, x := range v {
		if i > 0 {
			s += " "
		}
		val := x.Val
		suffix := ""
		if len(val) > 24 {
			val = val[:24]
			suffix = fmt.Sprintf("…(%d)", len(x.Val))
		}
		s += fmt.Sprintf("{%q %q %q%s %v}", x.Field, x.Typ, val, suffix, x.AP)
	}
	return s + "]"
}

var _ = sortedKeys[int]
