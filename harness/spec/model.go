package spec

import (
	"sort"
)

// Reference model: a pure function from a batch specification (or a merge
// plan) to the answers the segment API must give. It knows nothing about
// field ids, chunking, 1-hit encoding, pools or file layout.

type accTerm struct {
	freq uint64
	locs []Loc
}

type accField struct {
	length uint64
	seen   bool // a previous instance of this field name was visited in this doc
	terms  map[string]*accTerm
}

// docIndex computes, for one document, field -> term -> (freq, locs) and field -> length.
func docIndex(d *DocSpec) map[string]*accField {
	accs := map[string]*accField{}
	visit := func(f *FieldSpec) {
		if f.Kind != KindText {
			return
		}
		a := accs[f.Name]
		if a == nil {
			a = &accField{terms: map[string]*accTerm{}}
			accs[f.Name] = a
		}
		a.length += uint64(f.Len)
		for i := range f.Tokens {
			tok := &f.Tokens[i]
			locs := make([]Loc, 0, len(tok.Locs))
			for _, l := range tok.Locs {
				field := f.Name
				if !a.seen && l.Field != "" {
					// only the first instance of a field keeps the source-field
					// names of its locations (composite fields); later instances
					// are merged in under the field's own name
					field = l.Field
				}
				locs = append(locs, Loc{Field: field, Pos: uint64(l.Pos), Start: uint64(l.Start), End: uint64(l.End), AP: normAP(append([]uint64(nil), l.AP...))})
			}
			t := a.terms[string(tok.Term)]
			if t == nil {
				t = &accTerm{}
				a.terms[string(tok.Term)] = t
			}
			t.freq += uint64(tok.Freq)
			t.locs = append(t.locs, locs...)
		}
		a.seen = true
	}
	for i := range d.Composite {
		visit(&d.Composite[i])
	}
	eff := d.EffFields()
	for i := range eff {
		visit(&eff[i])
	}
	return accs
}

func fieldNames(docs []DocSpec) []string {
	set := map[string]bool{}
	for i := range docs {
		for j := range docs[i].Composite {
			set[docs[i].Composite[j].Name] = true
		}
		for j := range docs[i].Fields {
			set[docs[i].Fields[j].Name] = true
		}
	}
	delete(set, "_id")
	out := make([]string, 0, len(set)+1)
	for k := range set {
		out = append(out, k)
	}
	sort.Strings(out)
	return append([]string{"_id"}, out...)
}

// Expect returns the observation a segment built from the batch must give.
func Expect(b *BatchSpec) *Obs {
	return expectDocs(b.AllDocs())
}

func expectDocs(docs []DocSpec) *Obs {
	o := &Obs{
		Count:  uint64(len(docs)),
		Index:  map[string]map[string][]Hit{},
		DV:     map[string]map[uint64][]string{},
		Thes:   map[string]map[string][]SynPair{},
		Vec:    map[string]*VecField{},
		Stored: make([][]StoredVal, len(docs)),
	}
	if len(docs) == 0 {
		return o
	}
	o.Fields = fieldNames(docs)

	// doc-value fields: any text instance anywhere in the batch asks for them
	dvSet := map[string]bool{}
	for i := range docs {
		for j := range docs[i].Composite {
			if f := &docs[i].Composite[j]; f.DV {
				dvSet[f.Name] = true
			}
		}
		for j := range docs[i].Fields {
			if f := &docs[i].Fields[j]; f.DV {
				dvSet[f.Name] = true
			}
		}
		if docs[i].IDDV {
			dvSet["_id"] = true
		}
	}
	for f := range dvSet {
		o.DVFields = append(o.DVFields, f)
	}

	for dn := range docs {
		d := &docs[dn]
		accs := docIndex(d)
		for fname, a := range accs {
			if len(a.terms) == 0 {
				continue
			}
			fi := o.Index[fname]
			if fi == nil {
				fi = map[string][]Hit{}
				o.Index[fname] = fi
			}
			for term, t := range a.terms {
				h := Hit{Doc: uint64(dn), Freq: t.freq, Locs: t.locs}
				if t.freq > 0 {
					h.Norm = NormOf(a.length)
				}
				fi[term] = append(fi[term], h)
				if dvSet[fname] {
					dv := o.DV[fname]
					if dv == nil {
						dv = map[uint64][]string{}
						o.DV[fname] = dv
					}
					dv[uint64(dn)] = append(dv[uint64(dn)], term)
				}
			}
		}

		// geo-shape fields: the encoded shape of the last instance is one more doc value
		shapes := map[string]string{}
		visitShape := func(f *FieldSpec) {
			if f.Kind == KindText && f.Shape != nil {
				shapes[f.Name] = string(f.Shape)
			}
		}
		for j := range d.Composite {
			visitShape(&d.Composite[j])
		}
		for j := range d.Fields {
			visitShape(&d.Fields[j])
		}
		for fname, sh := range shapes {
			if dvSet[fname] {
				dv := o.DV[fname]
				if dv == nil {
					dv = map[uint64][]string{}
					o.DV[fname] = dv
				}
				dv[uint64(dn)] = append(dv[uint64(dn)], sh)
			}
		}

		// stored: _id first, then by field name order, within a field in input order
		st := []StoredVal{{Field: "_id", Typ: 't', Val: []byte(d.ID)}}
		for _, fname := range o.Fields[1:] {
			for j := range d.Fields {
				f := &d.Fields[j]
				if f.Name == fname && f.Stored {
					st = append(st, StoredVal{Field: fname, Typ: f.Type, Val: append([]byte{}, f.Value...), AP: normAP(append([]uint64(nil), f.AP...))})
				}
			}
		}
		o.Stored[dn] = st

		// thesauri and vectors
		for j := range d.Fields {
			f := &d.Fields[j]
			switch f.Kind {
			case KindSyn:
				th := o.Thes[f.Name]
				if th == nil {
					th = map[string][]SynPair{}
					o.Thes[f.Name] = th
				}
				for _, def := range f.Syn {
					for _, s := range def.Syns {
						p := SynPair{Syn: string(s), Doc: uint32(dn)}
						dup := false
						for _, q := range th[string(def.Term)] {
							if q == p {
								dup = true
							}
						}
						if !dup {
							th[string(def.Term)] = append(th[string(def.Term)], p)
						}
					}
				}
			case KindVec:
				vf := o.Vec[f.Name]
				if vf == nil {
					vf = &VecField{Dim: f.Vec.Dim, Metric: f.Vec.Metric, Opt: f.Vec.Opt}
					o.Vec[f.Name] = vf
				}
				for k := 0; k+f.Vec.Dim <= len(f.Vec.Data); k += f.Vec.Dim {
					vf.Entries = append(vf.Entries, VecEntry{Doc: uint64(dn), Vec: append([]float32(nil), f.Vec.Data[k:k+f.Vec.Dim]...)})
				}
			}
		}
	}
	// hits were appended in increasing doc order already
	o.Normalize()
	return o
}

// Resolved is the model's view of a (sub)plan: the documents of the resulting
// segment in order, its Fields() and the doc-value fields of its inputs.
type Resolved struct {
	Docs     []DocSpec
	Fields   []string // nil for a segment without documents
	DVFields map[string]bool
	// NewNums[i][d] is the model's doc-number map of child i (inner nodes only).
	NewNums [][]uint64
	// ZeroSurvivors is set for an inner node whose merge kept no document.
	ZeroSurvivors bool
	// UnionFields is the union of the children's fields (inner nodes only).
	UnionFields []string
	// FieldsAlt is Fields under the other accepted reading of the zero-survivor
	// rule (an empty merge result still lists the union of its inputs' fields).
	FieldsAlt []string
}

const DocDropped = ^uint64(0)

// Resolve evaluates a merge plan in the model.
func Resolve(p *MergePlan) *Resolved {
	if p.IsLeaf() {
		o := Expect(p.Leaf)
		dv := map[string]bool{}
		for _, f := range o.DVFields {
			dv[f] = true
		}
		return &Resolved{Docs: p.Leaf.AllDocs(), Fields: o.Fields, FieldsAlt: o.Fields, DVFields: dv}
	}
	r := &Resolved{DVFields: map[string]bool{}}
	fieldSet := map[string]bool{}
	altSet := map[string]bool{}
	var next uint64
	for i := range p.Children {
		c := Resolve(&p.Children[i])
		for _, f := range c.Fields {
			fieldSet[f] = true
		}
		for _, f := range c.FieldsAlt {
			altSet[f] = true
		}
		for f := range c.DVFields {
			r.DVFields[f] = true
		}
		dropped := map[uint32]bool{}
		if i < len(p.Drops) && !p.Drops[i].Nil {
			for _, d := range p.Drops[i].Docs {
				dropped[d] = true
			}
		}
		nums := make([]uint64, len(c.Docs))
		for d := range c.Docs {
			if dropped[uint32(d)] {
				nums[d] = DocDropped
				continue
			}
			nums[d] = next
			next++
			r.Docs = append(r.Docs, c.Docs[d])
		}
		r.NewNums = append(r.NewNums, nums)
	}
	delete(fieldSet, "_id")
	names := make([]string, 0, len(fieldSet))
	for f := range fieldSet {
		names = append(names, f)
	}
	sort.Strings(names)
	r.UnionFields = append([]string{"_id"}, names...)
	delete(altSet, "_id")
	altNames := make([]string, 0, len(altSet))
	for f := range altSet {
		altNames = append(altNames, f)
	}
	sort.Strings(altNames)
	r.FieldsAlt = append([]string{"_id"}, altNames...)
	if len(r.Docs) == 0 {
		r.ZeroSurvivors = true
		r.Fields = nil // a valid empty segment; see DESIGN C05 (union also accepted by the check)
	} else {
		r.Fields = r.UnionFields
	}
	return r
}

// ExpectResolved is the observation of the segment a resolved plan denotes.
func ExpectResolved(r *Resolved) *Obs {
	o := expectDocs(r.Docs)
	o.Fields = r.Fields
	o.DVFields = nil
	for f := range r.DVFields {
		o.DVFields = append(o.DVFields, f)
	}
	sort.Strings(o.DVFields)
	return o
}
