// Package gen holds the rapid generators shared by all checks. Every random
// choice goes through rapid so that shrinking and replay work. Generators
// construct only inputs that bleve/scorch can hand to zapx (see DESIGN §3.3).
package gen

import (
	"fmt"
	"strings"

	"pgregory.net/rapid"

	"verifharness/spec"
)

// ---------------------------------------------------------------------------
// alphabets

var fieldPool = []string{"a", "body", "desc", "name", "tag", "título", "z9", "日本語", "b.c", "_x", "UPPER", "f1"}

var termPool = []string{
	"", "a", "ab", "b", "abc", "é", "日本", "\x00", "\x00a", "a\x00", "\x7f", "zz", "z", "cat", "dog",
	strings.Repeat("L", 300),
}

var compositePool = []string{"_all", "_comp", "~all"}

var typePool = []byte{'t', 'n', 'd', 'b', 'g', 'i', 0, 0x80, 0xff}

// ChunkModes is the palette of chunk modes (0 = the public New/Merge, i.e. 1026).
var ChunkModes = []uint32{0, 1, 2, 3, 4, 7, 64, 1024, 1025, 1026}

func ChunkMode(t *rapid.T, label string) uint32 {
	if !Chance(t, label+"Kind", 20) {
		return rapid.SampledFrom(ChunkModes).Draw(t, label)
	}
	return uint32(rapid.IntRange(1, 1024).Draw(t, label+"Any"))
}

// Chance is true with probability ~pct/100. rapid's integer generators are
// heavily biased towards small values, so percentages are built from fair
// bits; the minimal (all-false) draw means "no".
func Chance(t *rapid.T, label string, pct int) bool {
	n := 0
	for i := 0; i < 7; i++ {
		if rapid.Bool().Draw(t, label) {
			n |= 1 << i
		}
	}
	return 127-n < pct*128/100
}

// ---------------------------------------------------------------------------
// schema: drawn once per case, shared by every batch of the case

type FieldOpt struct {
	Name   string `json:"name"`
	DV     bool   `json:"dv,omitempty"`
	Stored bool   `json:"st,omitempty"`
	Locs   bool   `json:"locs,omitempty"`  // term vectors on
	Freq0  bool   `json:"freq0,omitempty"` // skip freq/norm: frequency 0
	Multi  bool   `json:"multi,omitempty"` // may occur several times per document
	LongAP bool   `json:"longap,omitempty"`
	Geo    bool   `json:"geo,omitempty"` // instances carry an encoded shape (extra doc value)
}

type VecOpt struct {
	Name   string `json:"name"`
	Dim    int    `json:"dim"`
	Metric string `json:"metric"`
	Opt    string `json:"opt"`
}

type Schema struct {
	Fields      []FieldOpt `json:"fields"`
	Terms       []string   `json:"-"`
	Composite   string     `json:"composite,omitempty"`
	CompositeDV bool       `json:"compositeDV,omitempty"`
	Thesauri    []string   `json:"thesauri,omitempty"`
	SynTerms    []string   `json:"-"`
	Vecs        []VecOpt   `json:"vecs,omitempty"`
	BigValues   bool       `json:"big,omitempty"`
	IDDV        bool       `json:"iddv,omitempty"`       // the _id field carries doc values (consistent over the whole case)
	WideDV      bool       `json:"wideDV,omitempty"`     // doc-value option of the wide batches' field (consistent over the whole case)
	ManyFields  int        `json:"manyFields,omitempty"` // number of extra fields "m000".. (each document carries a few of them)
	nextID      int
}

type SchemaOpts struct {
	MinFields, MaxFields int
	ManyFieldsPct        int  // percentage of schemas with 130..200 extra fields (field ids beyond the 1-byte varint range); default 4
	ForceDV              bool // at least one dv field
	ForceStored          bool
	Synonyms             int // 0 none, 1 maybe, 2 always
	Vectors              int // 0 none, 1 maybe, 2 always
	NoComposite          bool
	NoFreq0              bool
}

func DefaultSchemaOpts() SchemaOpts { return SchemaOpts{MinFields: 1, MaxFields: 5} }

func GenSchema(t *rapid.T, o SchemaOpts) *Schema {
	if o.MaxFields == 0 {
		o.MaxFields = 5
	}
	if o.MinFields == 0 {
		o.MinFields = 1
	}
	s := &Schema{}
	names := rapid.SliceOfNDistinct(rapid.SampledFrom(fieldPool), o.MinFields, o.MaxFields, rapid.ID[string]).Draw(t, "fieldNames")
	for i, n := range names {
		f := FieldOpt{Name: n}
		fl := fmt.Sprintf("fieldOpt%d", i)
		f.DV = rapid.Bool().Draw(t, fl+"dv")
		f.Stored = rapid.Bool().Draw(t, fl+"st")
		f.Locs = rapid.Bool().Draw(t, fl+"locs")
		f.Multi = Chance(t, fl+"multi", 35)
		f.Freq0 = !o.NoFreq0 && Chance(t, fl+"freq0", 20)
		f.LongAP = Chance(t, fmt.Sprintf("fieldLongAP%d", i), 10)
		f.Geo = Chance(t, fl+"geo", 12)
		s.Fields = append(s.Fields, f)
	}
	mfp := o.ManyFieldsPct
	if mfp == 0 {
		mfp = 4
	}
	if mfp > 0 && Chance(t, "manyFields", mfp) {
		// field ids >= 128 need two varint bytes in stored records and locations
		n := rapid.IntRange(130, 200).Draw(t, "manyFieldsN")
		s.ManyFields = n
	}
	if o.ForceDV {
		s.Fields[0].DV = true
	}
	if o.ForceStored {
		s.Fields[len(s.Fields)-1].Stored = true
	}
	nTerms := rapid.IntRange(2, 10).Draw(t, "nTerms")
	s.Terms = rapid.SliceOfNDistinct(rapid.SampledFrom(termPool), nTerms, nTerms, rapid.ID[string]).Draw(t, "terms")
	if !o.NoComposite && Chance(t, "hasComposite", 35) {
		s.Composite = rapid.SampledFrom(compositePool).Draw(t, "compositeName")
		s.CompositeDV = rapid.Bool().Draw(t, "compositeDV")
	}
	if o.Synonyms == 2 || (o.Synonyms == 1 && Chance(t, "hasSyn", 25)) {
		n := rapid.IntRange(1, 3).Draw(t, "nThesauri")
		pool := []string{"syn", "thes2", "Ωsyn", "coll"}
		s.Thesauri = rapid.SliceOfNDistinct(rapid.SampledFrom(pool), n, n, rapid.ID[string]).Draw(t, "thesauri")
		// "plumless" and "buckeroo" have the same CRC-32 (identifiers derived from content hashes collide on them)
		s.SynTerms = []string{"happy", "plumless", "buckeroo", "glad", "joyful", "sad", "x", "é", "big", "large", "\x01"}
	}
	if o.Vectors == 2 || (o.Vectors == 1 && Chance(t, "hasVec", 25)) {
		n := rapid.IntRange(1, 2).Draw(t, "nVecFields")
		pool := []string{"vec", "emb", "v2"}
		vnames := rapid.SliceOfNDistinct(rapid.SampledFrom(pool), n, n, rapid.ID[string]).Draw(t, "vecNames")
		for i, vn := range vnames {
			s.Vecs = append(s.Vecs, VecOpt{
				Name:   vn,
				Dim:    rapid.IntRange(1, 4).Draw(t, fmt.Sprintf("vecDim%d", i)),
				Metric: rapid.SampledFrom([]string{"l2_norm", "dot_product", "cosine"}).Draw(t, fmt.Sprintf("vecMetric%d", i)),
				Opt:    rapid.SampledFrom([]string{"recall", "latency", "memory-efficient"}).Draw(t, fmt.Sprintf("vecOpt%d", i)),
			})
		}
	}
	s.BigValues = Chance(t, "bigValues", 5)
	if o.Vectors != 2 {
		s.IDDV = Chance(t, "idDV", 20)
	}
	s.WideDV = rapid.Bool().Draw(t, "wideDV")
	return s
}

// FieldNames lists the text field names of the schema.
func (s *Schema) FieldNames() []string {
	out := make([]string, len(s.Fields))
	for i := range s.Fields {
		out[i] = s.Fields[i].Name
	}
	if s.ManyFields > 0 {
		out = append(out, "m000", fmt.Sprintf("m%03d", s.ManyFields-1))
	}
	return out
}

// ---------------------------------------------------------------------------
// documents

func genAP(t *rapid.T, label string, long bool) []uint64 {
	max := 3
	if long {
		max = 40
	}
	n := rapid.IntRange(0, max).Draw(t, label+"N")
	if n == 0 {
		return nil
	}
	return rapid.SliceOfN(rapid.Uint64Range(0, 300), n, n).Draw(t, label)
}

func (s *Schema) genTextField(t *rapid.T, fo *FieldOpt, label string, instance int) spec.FieldSpec {
	f := spec.FieldSpec{Name: fo.Name, Stored: fo.Stored, DV: fo.DV}
	if fo.Multi || instance > 0 {
		f.AP = []uint64{uint64(instance)}
	}
	if fo.LongAP {
		f.AP = genAP(t, label+"ap", true)
	}
	if fo.Stored {
		f.Type = rapid.SampledFrom(typePool).Draw(t, label+"typ")
		if s.BigValues && Chance(t, label+"big", 25) {
			n := rapid.IntRange(65537, 140000).Draw(t, label+"bigLen")
			v := make([]byte, n)
			for i := range v {
				v[i] = byte(i*7 + i/251)
			}
			f.Value = v
		} else if Chance(t, label+"medium", 22) {
			// medium values around the varint-length boundaries of the stored record header
			// (127/128/129, 255/256, 16383/16384 bytes), poorly compressible
			n := rapid.SampledFrom([]int{127, 128, 129, 130, 200, 255, 256, 300, 16383, 16384, 16390}).Draw(t, label+"mediumLen")
			v := make([]byte, n)
			x := uint32(n)*2654435761 + uint32(len(label))
			for i := range v {
				x = x*1664525 + 1013904223
				v[i] = byte(x >> 24)
			}
			f.Value = v
		} else {
			f.Value = rapid.SliceOfN(rapid.Byte(), 0, 12).Draw(t, label+"val")
		}
	}
	if fo.Geo {
		f.Shape = append([]byte("\x01shape"), rapid.SliceOfN(rapid.ByteRange(0, 0xfe), 0, 5).Draw(t, label+"shape")...)
	}
	minTok := 0
	if fo.Geo {
		minTok = 1 // a shape always yields index tokens in bleve's spatial analysis
	}
	nTok := rapid.IntRange(minTok, min(4, len(s.Terms))).Draw(t, label+"nTok")
	terms := rapid.SliceOfNDistinct(rapid.SampledFrom(s.Terms), nTok, nTok, rapid.ID[string]).Draw(t, label+"terms")
	total := 0
	for i, term := range terms {
		tok := spec.TokenSpec{Term: spec.B(term)}
		if !fo.Freq0 {
			tok.Freq = rapid.IntRange(1, 4).Draw(t, fmt.Sprintf("%sfreq%d", label, i))
			if Chance(t, fmt.Sprintf("%sfreqB%d", label, i), 4) {
				// varint-length boundaries of (freq<<1 | hasLocs)
				tok.Freq = rapid.SampledFrom([]int{63, 64, 65, 8191, 8192}).Draw(t, fmt.Sprintf("%sfreqBv%d", label, i))
			}
		}
		total += tok.Freq
		if fo.Locs {
			maxLocs := min(tok.Freq, 4)
			if fo.Freq0 {
				maxLocs = 2
			}
			nLocs := rapid.IntRange(0, maxLocs).Draw(t, fmt.Sprintf("%snLocs%d", label, i))
			for j := 0; j < nLocs; j++ {
				ll := fmt.Sprintf("%sloc%d_%d", label, i, j)
				start := rapid.IntRange(0, 200).Draw(t, ll+"s")
				pos := rapid.IntRange(1, 50).Draw(t, ll+"p")
				end := start + rapid.IntRange(0, 20).Draw(t, ll+"e")
				if Chance(t, ll+"boundary", 12) {
					// varint-length boundaries of the encoded location
					bv := []int{127, 128, 129, 16383, 16384, 16385, 2097151, 2097152}
					switch rapid.IntRange(0, 2).Draw(t, ll+"which") {
					case 0:
						pos = rapid.SampledFrom(bv).Draw(t, ll+"bp")
					case 1:
						start = rapid.SampledFrom(bv).Draw(t, ll+"bs")
						end = start + rapid.IntRange(0, 3).Draw(t, ll+"be")
					default:
						end = rapid.SampledFrom(bv).Draw(t, ll+"bE")
						if start > end {
							start = end
						}
					}
				}
				tok.Locs = append(tok.Locs, spec.LocSpec{
					Pos:   pos,
					Start: start,
					End:   end,
					AP:    append([]uint64(nil), f.AP...),
				})
			}
		}
		f.Tokens = append(f.Tokens, tok)
	}
	f.Len = total + rapid.IntRange(0, 3).Draw(t, label+"extraLen")
	if Chance(t, label+"lenB", 4) {
		// analysed lengths on varint-length boundaries of the stored norm (still < 2^30)
		f.Len = total + rapid.SampledFrom([]int{127, 128, 16383, 16384, 2097151, 2097152, 268435455, 268435456}).Draw(t, label+"lenBv")
	}
	if total > 0 && f.Len < 1 {
		f.Len = 1
	}
	return f
}

// compose builds the composite field from the document's fields like bleve's
// _all: token frequencies merged, locations naming their source field.
func (s *Schema) compose(fields []spec.FieldSpec, include func(i int) bool) spec.FieldSpec {
	c := spec.FieldSpec{Name: s.Composite, Type: 'c', DV: s.CompositeDV}
	idx := map[string]int{}
	for i := range fields {
		f := &fields[i]
		if f.Kind != spec.KindText || !include(i) {
			continue
		}
		c.Len += f.Len
		for _, tok := range f.Tokens {
			j, ok := idx[string(tok.Term)]
			if !ok {
				j = len(c.Tokens)
				idx[string(tok.Term)] = j
				c.Tokens = append(c.Tokens, spec.TokenSpec{Term: tok.Term})
			}
			c.Tokens[j].Freq += tok.Freq
			for _, l := range tok.Locs {
				l.Field = f.Name
				l.AP = append([]uint64(nil), l.AP...)
				c.Tokens[j].Locs = append(c.Tokens[j].Locs, l)
			}
		}
	}
	return c
}

// NewID returns a fresh document id for this case.
func (s *Schema) NewID(t *rapid.T, label string) string {
	s.nextID++
	// ids sort in a non-monotone order relative to doc numbers
	pfx := rapid.SampledFrom([]string{"d", "D", "é", "z", "0"}).Draw(t, label+"idp")
	id := fmt.Sprintf("%s%d", pfx, s.nextID)
	if Chance(t, label+"longID", 6) {
		// ids whose length sits on varint boundaries of the stored record's id-length field
		n := rapid.SampledFrom([]int{127, 128, 129, 255, 256, 257, 384, 16384}).Draw(t, label+"idLen")
		for len(id) < n {
			id += "x"
		}
	}
	return id
}

func (s *Schema) GenDoc(t *rapid.T, label string, id string) spec.DocSpec {
	d := spec.DocSpec{ID: spec.B(id), IDLast: rapid.Bool().Draw(t, label+"idLast"), IDDV: s.IDDV}
	for i := range s.Fields {
		fo := &s.Fields[i]
		if Chance(t, fmt.Sprintf("%sf%dabsent", label, i), 25) {
			continue
		}
		inst := 1
		if fo.Multi {
			inst = rapid.IntRange(1, 3).Draw(t, fmt.Sprintf("%sf%dinst", label, i))
		}
		for k := 0; k < inst; k++ {
			d.Fields = append(d.Fields, s.genTextField(t, fo, fmt.Sprintf("%sf%d_%d", label, i, k), k))
		}
	}
	if s.ManyFields > 0 {
		k := rapid.IntRange(1, 4).Draw(t, label+"nMany")
		for j := 0; j < k; j++ {
			idx := rapid.IntRange(0, s.ManyFields-1).Draw(t, fmt.Sprintf("%smany%d", label, j))
			name := fmt.Sprintf("m%03d", idx)
			dup := false
			for _, f := range d.Fields {
				if f.Name == name {
					dup = true
				}
			}
			if dup {
				continue
			}
			term := rapid.SampledFrom(s.Terms).Draw(t, fmt.Sprintf("%smanyT%d", label, j))
			f := spec.FieldSpec{Name: name, Type: 't', Stored: idx%2 == 0, DV: idx%3 == 0, Len: 2, Value: []byte(name),
				Tokens: []spec.TokenSpec{{Term: spec.B(term), Freq: 2, Locs: []spec.LocSpec{{Pos: 1, Start: 0, End: 1}, {Pos: 2, Start: 2, End: 3}}}}}
			d.Fields = append(d.Fields, f)
		}
	}
	if len(d.Fields) > 1 && Chance(t, label+"shuffle", 25) {
		// interleave instances of different fields
		d.Fields = rapid.Permutation(d.Fields).Draw(t, label+"perm")
	}
	if s.Composite != "" && !Chance(t, label+"noComp", 20) {
		mask := rapid.IntRange(0, 1<<min(len(d.Fields), 10)).Draw(t, label+"compMask")
		c := s.compose(d.Fields, func(i int) bool { return i >= 10 || mask&(1<<i) == 0 })
		d.Composite = []spec.FieldSpec{c}
	}
	for i, vo := range s.Vecs {
		if Chance(t, fmt.Sprintf("%sv%dabsent", label, i), 25) {
			continue
		}
		d.Fields = append(d.Fields, s.GenVecField(t, &vo, fmt.Sprintf("%sv%d", label, i)))
	}
	return d
}

// GenVecField draws a vector field value: 1..3 vectors with small integer
// coordinates (so every distance is exact in float32). Cosine fields use
// signed unit axis vectors, which are exactly normalised.
func (s *Schema) GenVecField(t *rapid.T, vo *VecOpt, label string) spec.FieldSpec {
	k := 1
	if Chance(t, label+"multi", 25) {
		k = rapid.IntRange(2, 3).Draw(t, label+"k")
	}
	data := make([]float32, 0, k*vo.Dim)
	for j := 0; j < k; j++ {
		data = append(data, GenVector(t, vo, fmt.Sprintf("%s_%d", label, j))...)
	}
	return spec.FieldSpec{Name: vo.Name, Kind: spec.KindVec, Vec: &spec.VecSpec{Dim: vo.Dim, Data: data, Metric: vo.Metric, Opt: vo.Opt}}
}

// GenVector draws one vector for a field (also used for queries).
func GenVector(t *rapid.T, vo *VecOpt, label string) []float32 {
	v := make([]float32, vo.Dim)
	if vo.Metric == "cosine" {
		axis := rapid.IntRange(0, vo.Dim-1).Draw(t, label+"axis")
		if rapid.Bool().Draw(t, label+"neg") {
			v[axis] = -1
		} else {
			v[axis] = 1
		}
		return v
	}
	for i := range v {
		v[i] = float32(rapid.IntRange(-4, 4).Draw(t, fmt.Sprintf("%sc%d", label, i)))
	}
	return v
}

func (s *Schema) GenSynDoc(t *rapid.T, label string, id string) spec.DocSpec {
	name := rapid.SampledFrom(s.Thesauri).Draw(t, label+"thes")
	nDefs := rapid.IntRange(1, 3).Draw(t, label+"nDefs")
	lhs := rapid.SliceOfNDistinct(rapid.SampledFrom(s.SynTerms), nDefs, nDefs, rapid.ID[string]).Draw(t, label+"lhs")
	f := spec.FieldSpec{Name: name, Kind: spec.KindSyn}
	for i, term := range lhs {
		n := rapid.IntRange(1, 3).Draw(t, fmt.Sprintf("%snSyn%d", label, i))
		syns := rapid.SliceOfNDistinct(rapid.SampledFrom(s.SynTerms), n, n, rapid.ID[string]).Draw(t, fmt.Sprintf("%ssyns%d", label, i))
		def := spec.SynDef{Term: spec.B(term)}
		for _, x := range syns {
			def.Syns = append(def.Syns, spec.B(x))
		}
		f.Syn = append(f.Syn, def)
	}
	return spec.DocSpec{ID: spec.B(id), IDLast: true, IDDV: s.IDDV, Fields: []spec.FieldSpec{f}}
}

// ---------------------------------------------------------------------------
// batches

type BatchOpts struct {
	MaxDocs    int  // explicit documents (default 8)
	AllowWide  bool // allow the parametric wide part
	AllowEmpty bool
	WidePct    int // percentage of batches with a wide part (default 6)
	MinDocs    int
	DupIDPct   int // percentage of batches with one duplicated id
	SynPct     int // percentage of synonym documents when the schema has thesauri (default 35)
}

func (s *Schema) GenBatch(t *rapid.T, label string, o BatchOpts) *spec.BatchSpec {
	if o.MaxDocs == 0 {
		o.MaxDocs = 8
	}
	b := &spec.BatchSpec{}
	lo := o.MinDocs
	if !o.AllowEmpty && lo < 1 {
		lo = 1
	}
	var n int
	switch {
	case o.AllowEmpty && lo == 0 && Chance(t, label+"empty", 3):
		n = 0
	case !Chance(t, label+"big", 30):
		n = rapid.IntRange(max(lo, 1), max(lo, min(o.MaxDocs, 8))).Draw(t, label+"nDocs")
	default:
		n = rapid.IntRange(max(lo, 1), max(lo, o.MaxDocs)).Draw(t, label+"nDocsBig")
	}
	for i := 0; i < n; i++ {
		dl := fmt.Sprintf("%sd%d", label, i)
		id := s.NewID(t, dl)
		synPct := o.SynPct
		if synPct == 0 {
			synPct = 35
		}
		if len(s.Thesauri) > 0 && Chance(t, dl+"isSyn", synPct) {
			b.Docs = append(b.Docs, s.GenSynDoc(t, dl, id))
		} else {
			b.Docs = append(b.Docs, s.GenDoc(t, dl, id))
		}
	}
	if o.DupIDPct > 0 && len(b.Docs) >= 2 && Chance(t, label+"dup", o.DupIDPct) {
		i := rapid.IntRange(1, len(b.Docs)-1).Draw(t, label+"dupIdx")
		b.Docs[i].ID = b.Docs[0].ID
	}
	if o.AllowWide {
		pct := o.WidePct
		if pct == 0 {
			pct = 6
		}
		if Chance(t, label+"wide", pct) {
			b.Wide = GenWide(t, label+"w")
			b.Wide.IDDV = s.IDDV
			b.Wide.DV = s.WideDV // the doc-value option is a per-field (mapping level) property
		}
	}
	return b
}

// GenWide draws the parameters of a wide batch: enough one-field documents
// that postings lists exceed 1024 hits and modes 1025/1026 use several chunks.
func GenWide(t *rapid.T, label string) *spec.WideSpec {
	w := &spec.WideSpec{}
	w.N = rapid.SampledFrom([]int{1023, 1024, 1025, 1100, 2047, 2048, 2049, 2300, 600, 1000}).Draw(t, label+"N")
	w.Multi = Chance(t, label+"Multi", 25)
	w.Period = rapid.SampledFrom([]int{0, 1, 2, 7, 1000}).Draw(t, label+"Period")
	w.Every = rapid.SampledFrom([]int{0, 1, 2, 3, 500}).Draw(t, label+"Every")
	w.Locs = rapid.Bool().Draw(t, label+"Locs")
	w.DV = rapid.Bool().Draw(t, label+"DV")
	w.Stored = Chance(t, label+"Stored", 25)
	w.Gap = rapid.SampledFrom([]int{0, 0, 5, 1024}).Draw(t, label+"Gap")
	return w
}

// ---------------------------------------------------------------------------
// deletion bitmaps and merge plans

// GenDrop draws a deletion bitmap for a segment with n documents.
func GenDrop(t *rapid.T, label string, n int) spec.DropSpec {
	switch rapid.SampledFrom([]int{6, 0, 1, 2, 3, 4, 7, 8, 5, 9}).Draw(t, label+"kind") {
	case 0:
		return spec.DropSpec{Nil: true}
	case 1:
		return spec.DropSpec{}
	case 2: // single
		if n == 0 {
			return spec.DropSpec{}
		}
		return spec.DropSpec{Docs: []uint32{uint32(rapid.IntRange(0, n-1).Draw(t, label+"one"))}}
	case 3: // all but one
		if n == 0 {
			return spec.DropSpec{}
		}
		keep := rapid.IntRange(0, n-1).Draw(t, label+"keep")
		d := spec.DropSpec{}
		for i := 0; i < n; i++ {
			if i != keep {
				d.Docs = append(d.Docs, uint32(i))
			}
		}
		return d
	case 4: // full
		d := spec.DropSpec{}
		for i := 0; i < n; i++ {
			d.Docs = append(d.Docs, uint32(i))
		}
		return d
	case 5:
		return spec.DropSpec{Nil: true}
	default: // random subset
		d := spec.DropSpec{}
		if n <= 64 {
			for i := 0; i < n; i++ {
				if rapid.Bool().Draw(t, fmt.Sprintf("%sb%d", label, i)) {
					d.Docs = append(d.Docs, uint32(i))
				}
			}
			return d
		}
		// large segments: periodic pattern + a few singles
		period := rapid.IntRange(2, 9).Draw(t, label+"period")
		phase := rapid.IntRange(0, period-1).Draw(t, label+"phase")
		for i := phase; i < n; i += period {
			d.Docs = append(d.Docs, uint32(i))
		}
		return d
	}
}

type PlanOpts struct {
	MaxDepth    int
	MaxChildren int
	Batch       BatchOpts
	ChunkModes  bool // random chunk modes (else 0 = default)
	SameFields  int  // percentage of plans in which every document carries every field (identical field lists)
}

// GenPlan draws a merge plan whose root is an inner node.
func (s *Schema) GenPlan(t *rapid.T, label string, o PlanOpts) *spec.MergePlan {
	if o.MaxDepth == 0 {
		o.MaxDepth = 3
	}
	if o.MaxChildren == 0 {
		o.MaxChildren = 4
	}
	depth := rapid.IntRange(1, o.MaxDepth).Draw(t, label+"depth")
	p := s.genPlanNode(t, label, o, depth)
	return &p
}

func (s *Schema) genPlanNode(t *rapid.T, label string, o PlanOpts, depth int) spec.MergePlan {
	if depth == 0 {
		p := spec.MergePlan{Leaf: s.GenBatch(t, label+"L", o.Batch), Mmap: rapid.Bool().Draw(t, label+"mmap")}
		if o.ChunkModes {
			p.ChunkMode = ChunkMode(t, label+"cm")
		}
		return p
	}
	n := rapid.IntRange(1, o.MaxChildren).Draw(t, label+"nChildren")
	p := spec.MergePlan{}
	if o.ChunkModes {
		p.ChunkMode = ChunkMode(t, label+"cm")
	}
	deepIdx := rapid.IntRange(0, n-1).Draw(t, label+"deep")
	for i := 0; i < n; i++ {
		cl := fmt.Sprintf("%sc%d", label, i)
		cd := 0
		if i == deepIdx {
			cd = depth - 1
		} else if depth > 1 {
			cd = rapid.IntRange(0, depth-1).Draw(t, cl+"depth")
		}
		c := s.genPlanNode(t, cl, o, cd)
		p.Children = append(p.Children, c)
		nd := len(spec.Resolve(&c).Docs)
		p.Drops = append(p.Drops, GenDrop(t, cl+"drop", nd))
	}
	return p
}

// Uniform makes every non-synonym document of the plan carry every schema
// field (so all leaves have identical field lists and the byte-copy merge
// paths run). Missing fields are added with no tokens.
func (s *Schema) Uniform(p *spec.MergePlan) {
	if p.IsLeaf() {
		for i := range p.Leaf.Docs {
			d := &p.Leaf.Docs[i]
			have := map[string]bool{}
			for _, f := range d.Fields {
				have[f.Name] = true
			}
			for _, fo := range s.Fields {
				if !have[fo.Name] {
					d.Fields = append(d.Fields, spec.FieldSpec{Name: fo.Name, DV: fo.DV, Stored: false})
				}
			}
			if s.Composite != "" && len(d.Composite) == 0 {
				d.Composite = []spec.FieldSpec{{Name: s.Composite, Type: 'c', DV: s.CompositeDV}}
			}
		}
		return
	}
	for i := range p.Children {
		s.Uniform(&p.Children[i])
	}
}
