#!/bin/sh
# setup_cmd: compile every check binary once (warms the Go build cache). Offline.
set -e
cd "$(dirname "$0")"
export GOFLAGS=-mod=mod GOPROXY=off GOSUMDB=off GOTOOLCHAIN=local
mkdir -p evidence replays
exec ./check --build-all
