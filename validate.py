#!/usr/bin/env python3
import json, sys, glob
sys.path.insert(0, "/opt/veriftools/pyvenv/lib/python3.11/site-packages")
try:
    import jsonschema
except ImportError:
    import subprocess
    sys.exit(subprocess.call(["python3-vt", __file__]))
jsonschema.validate(json.load(open('/verif/MANIFEST.json')), json.load(open('/root/.vp/MANIFEST.schema.json')))
es = json.load(open('/root/.vp/EVIDENCE.schema.json'))
for f in sorted(glob.glob('/verif/evidence/*.json')):
    jsonschema.validate(json.load(open(f)), es)
    print("ok", f)
print("manifest ok")
