# Per-property check configuration for ./check (stages, case counts, evidence text).
#
# stage: name (= the Stage of the Go Check / replay dispatch key), test (Go test function),
#        tags, quick/thorough: {checks, shards, timeout, race, env}

COMMON_ASSUME = [
    "inputs are restricted to what bleve/scorch can hand to zapx (DESIGN.md §3.3): one stored+indexed _id per document, non-empty field names, terms without 0xff, analysed length >= 1 and < 2^30 when a frequency is > 0, doc-value option consistent per field name",
    "vellum (FST), roaring and snappy are trusted third-party encodings",
    "segments stay small (<= ~2300 documents, <= ~1 MiB); doc numbers near 2^31 and > 4 GiB files are not generated",
]
VEC_ASSUME = [
    "the native FAISS library is not installed: the vectors build runs against the pure-Go fake engine in /verif/fakefaiss (exact brute force, genuine IVF probing, instrumentation); what is checked is zapx's own logic, not FAISS numerics",
]


def rapid_stage(name, test, quick, thorough, tags="verif", qshards=1, tshards=12, qtimeout=300, ttimeout=1500, **kw):
    st = {"name": name, "test": test, "tags": tags,
          "quick": {"checks": quick, "shards": qshards, "timeout": qtimeout},
          "thorough": {"checks": thorough, "shards": tshards, "timeout": ttimeout}}
    st.update(kw)
    return st


PROPS = {
    "C01": {
        "level": "exploration",
        "rule": "rapid-generated batch specifications (0..40 explicit documents plus an optional parametric 'wide' part of 1023..2300 one-field documents) x chunk mode; a case is non-trivial when the batch has >= 2 documents and >= 1 term with >= 2 hits; distinct = distinct FNV-64 hash of the case JSON; plus deterministic 'big' scenarios: wide batches of 65537 (thorough: 65535..131073) documents, where document numbers cross the 16-bit container boundary of the postings bitmaps",
        "assumptions": [a.replace("<= ~2300 documents, <= ~1 MiB", "<= ~2300 documents in generated cases, up to 131073 in the deterministic big scenarios") for a in COMMON_ASSUME],
        "technique": "property-based testing (rapid): generated batches vs. reference model through the public segment API",
        "level_text": "Randomised exploration with shrinking: every generated batch x chunk mode is built by the real code and its complete term/postings/location surface is compared with an independent reference model; no proof, bounded sizes.",
        "level_note": "Trusts the ~300-line reference model (spec/model.go) and the stub documents; the vectors-tag build runs against the fake vector engine.",
        "stages": [
            rapid_stage("build", "TestC01", 400, 3000),
            rapid_stage("build-vectors", "TestC01", 150, 1000, tags="verif,vectors", tshards=4),
            {"name": "big", "test": "TestC01Big", "tags": "verif", "quick": {"shards": 1, "timeout": 600}, "thorough": {"shards": 1, "timeout": 1500}},
            {"name": "fuzz", "fuzz": "FuzzC01", "tags": "verif", "thorough": {"fuzztime": "45s", "timeout": 600}},
        ],
    },
    "C02": {
        "level": "exploration",
        "rule": "rapid-generated batches (stored values: repeated field names, empty values, values > 64 KiB, array positions up to 40, arbitrary type bytes, one duplicated id in ~12 % of batches) built in memory or persisted+opened, plus generated id lists (present, absent below/above every key, max key, max key + 1 byte, empty string, duplicates); for every document every early-stop point of the visitor; non-trivial = a document with >= 2 stored values of one field, or an id list mixing present and absent ids on a batch of >= 2 documents",
        "assumptions": COMMON_ASSUME,
        "technique": "property-based testing (rapid): stored-field / DocID / DocNumbers round trip vs. reference model, all early-stop points enumerated per document",
        "level_text": "Randomised exploration with shrinking against a reference model; early-stop points and beyond-Count numbers are enumerated for every generated document.",
        "level_note": "Trusts the reference model and the stub documents; visitor arguments are copied inside the callback (C11 covers their stability).",
        "stages": [rapid_stage("stored", "TestC02", 400, 2500),
                   {"name": "stored-fixed", "test": "TestC02Fixed", "tags": "verif", "quick": {"shards": 1, "timeout": 300}, "thorough": {"shards": 1, "timeout": 600}}],
    },
    "C03": {
        "level": "exploration",
        "rule": "rapid-generated pairs of batches (same schema, >= 1 doc-value field) x doc-value chunk size (LegacyChunkMode in {1024,1,2,3,5,16} or uniform 1..1024, shared by writer and reader) x in-memory/mmap per segment x a visit script of 1..40 (segment, doc) steps sharing one DocVisitState and one field list (subset incl. unknown, non-dv and _id names); non-trivial = the script jumps backwards across a chunk boundary or switches segments with a reused state, and the first batch has doc-value content",
        "assumptions": COMMON_ASSUME + ["the doc-value chunk size is a process-global not recorded in the file; writer and reader share it, as in bleve"],
        "technique": "property-based testing (rapid): generated visit scripts with shared visit state vs. reference model",
        "level_text": "Randomised exploration with shrinking of batches, chunk sizes and visiting orders; every callback multiset is compared with the model's term set.",
        "level_note": "Trusts the reference model; LegacyChunkMode is mutated only inside the single-goroutine check and restored.",
        "stages": [rapid_stage("docvalues", "TestC03", 300, 2000)],
    },
    "C04": {
        "level": "exploration",
        "rule": "rapid-generated batches (text, stored, doc values, thesauri; vector fields under the vectors tag) x chunk mode x doc-value chunk size; each is built, written with Persist and WriteTo, re-opened, and the complete observations (terms, postings, locations, stored, doc values, thesauri, vector searches) of the in-memory and the opened segment are compared with each other and the model, plus bytes/footer/CRC/size invariants; a targeted stage (offset-boundaries) pads one stored value until the doc-value block of a chosen field starts exactly at a file offset on a varint-length boundary of the section records (16383, 16384, 16385, 32767, 32768, 49151, 2097151; found by an iterative search using the independent reader) and then runs the same in-memory vs. re-opened comparison - the two loaders decode those records with different code; non-trivial = non-empty batch with doc values or a thesaurus (persist) / every placed case (offset-boundaries)",
        "assumptions": COMMON_ASSUME,
        "technique": "property-based testing (rapid): round trip / differential in-memory vs. mmap-opened vs. reference model, byte equality Persist vs. WriteTo, footer/CRC invariant",
        "level_text": "Randomised exploration with shrinking; the comparison covers the complete query surface of each generated segment, not sampled terms.",
        "level_note": "Trusts the reference model; the vectors-tag stage runs against the fake vector engine.",
        "stages": [
            rapid_stage("persist", "TestC04", 300, 2000),
            rapid_stage("offset-boundaries", "TestC04Offsets", 40, 300),
            {"name": "image-lengths", "test": "TestC04Lengths", "tags": "verif", "quick": {"shards": 1, "timeout": 600}, "thorough": {"shards": 1, "timeout": 1500}},
            rapid_stage("persist-vectors", "TestC04", 150, 800, tags="verif,vectors", tshards=4),
        ],
    },
    "C05": {
        "level": "exploration",
        "rule": "rapid-generated merge plans: trees of depth 1..3 with 1..4 children per merge; leaves are 0..8-document batches built in memory or persisted+opened; per-child deletion bitmaps from {nil, empty, single, all-but-one, full, random}; 50 % of plans are made uniform (every document carries every field, so all field lists are identical and the byte-copy paths run); every inner node is checked (doc-number maps, reported size, Count, Fields, stored values, DocID, DocNumbers, early-stop visits); non-trivial = some merge has >= 2 inputs or >= 1 deletion",
        "assumptions": COMMON_ASSUME + ["when nothing survives the merged segment must be a valid empty segment; Fields may be empty or the union of the inputs' fields (both readings accepted)"],
        "technique": "property-based testing (rapid): generated merge-plan trees executed by the real code vs. reference model of the survivors",
        "level_text": "Randomised exploration with shrinking over merge histories (built / opened / merged inputs, all deletion-bitmap shapes); every intermediate merge output is re-opened and compared with the model.",
        "level_note": "Trusts the reference model (merge = batch of surviving documents in segment order).",
        "stages": [rapid_stage("merge-stored", "TestC05", 250, 1500),
                   {"name": "merge-fixed", "test": "TestC05Fixed", "tags": "verif", "quick": {"shards": 1, "timeout": 600}, "thorough": {"shards": 1, "timeout": 1500}}],
    },
    "C06": {
        "level": "exploration",
        "rule": "the C05 plan generator with indexed content, doc values forced on >= 1 field, a random chunk mode for every build and merge, and an optional wide leaf (> 1024 documents); every inner node's full postings (frequencies, norms, locations with source-field names) and doc values are compared with the model of the survivors, and every term whose documents were all deleted must be absent; a second, targeted stage (merge-wide) merges a 1024..2100-document wide leaf with 1..2 small neighbours that have the field but mostly not its dense terms, in any order, with deletion bitmaps shaped (prefix / suffix / spread) so that the surviving cardinality of the dense term is exactly 1024*k + delta, delta in -2..2, in modes {default,1025,1026,1024}, optionally merged once more; non-trivial = a plan with >= 1 deletion and a term occurring in >= 2 inputs of one merge (merge-index) / a surviving list of >= 1022 hits (merge-wide)",
        "assumptions": COMMON_ASSUME + ["the list of visitable doc-value fields of a merged segment must contain every field with surviving doc values and only fields some input indexed with doc values"],
        "technique": "property-based testing (rapid): generated merge-plan trees x chunk modes vs. reference model (postings, locations, doc values)",
        "level_text": "Randomised exploration with shrinking over merge chains; 1-hit dictionary entries and byte-copied posting details are merged again by construction (depth up to 3).",
        "level_note": "Trusts the reference model.",
        "stages": [
            rapid_stage("merge-index", "TestC06", 250, 1500),
            rapid_stage("merge-wide", "TestC06Wide", 40, 300),
            {"name": "merge-big", "test": "TestC06Big", "tags": "verif", "quick": {"shards": 1, "timeout": 600}, "thorough": {"shards": 1, "timeout": 1500}},
            {"name": "merge-fixed", "test": "TestC06Fixed", "tags": "verif", "quick": {"shards": 1, "timeout": 600}, "thorough": {"shards": 1, "timeout": 1500}},
        ],
    },
    "C13": {
        "level": "exploration",
        "rule": "the C05 plan generator over schemas that always contain 1..3 thesauri (about a third of the documents are synonym documents drawn from a small shared synonym vocabulary, so inputs assign different internal ids to the same synonym); every inner node's thesauri (terms in order, (synonym, document) pairs) are compared with the model of the survivors; non-trivial = a merge with >= 2 inputs sharing a synonym string and >= 1 deletion in the plan",
        "assumptions": COMMON_ASSUME + ["synonym terms and synonyms are non-empty and every left-hand term has >= 1 synonym"],
        "technique": "property-based testing (rapid): generated merge-plan trees with synonym documents vs. reference model",
        "level_text": "Randomised exploration with shrinking over merge chains of segments with thesauri.",
        "level_note": "Trusts the reference model.",
        "stages": [rapid_stage("merge-thesaurus", "TestC13", 250, 1500)],
    },
    "C08": {
        "level": "exploration",
        "rule": "rapid-generated term sets (0..14 terms over the bytes {0x00,a,b,c,0x7f,é}, lengths 0..4, each term in one or several of 1..6 documents, ~45 % single-document terms so that merges produce 1-hit dictionary entries, a second field with its own terms) x provenance {built, opened, merged once, merged twice} x chunk mode x 1..6 queries (automaton in {nil, match-all, never, exact, prefix, vellum regexp from a small grammar, vellum levenshtein distance 1-2, contains-byte, length-mod-3} x key range with either bound absent or start < end taken from the terms and their neighbours, on existing, other and unknown fields); oracle = brute force over the model's sorted term list running the same automaton object byte by byte; non-trivial = >= 3 terms, the automaton accepts a proper non-empty subset and the range cuts >= 1 term",
        "assumptions": COMMON_ASSUME + ["key ranges are well formed: start < end when both are present (an end key may be the empty string, which makes the range empty)", "vellum's regexp / levenshtein automata are trusted as automata: the oracle runs the same automaton object over each term"],
        "technique": "property-based testing (rapid): dictionary iteration vs. brute-force filter of the reference model's term list with the same automaton",
        "level_text": "Randomised exploration with shrinking over term sets, automata, ranges and segment provenance (which changes the 1-hit encoding of single-document terms).",
        "level_note": "Trusts vellum's FST and automata implementations and the reference model.",
        "stages": [
            rapid_stage("dictionary", "TestC08", 400, 3000),
            {"name": "dictionary-remerge", "test": "TestC08Fixed", "tags": "verif", "quick": {"shards": 1, "timeout": 600}, "thorough": {"shards": 1, "timeout": 1500}},
            {"name": "dictionary-big", "test": "TestC08Big", "tags": "verif", "quick": {"shards": 1, "timeout": 600}, "thorough": {"shards": 1, "timeout": 1500}},
            {"name": "fuzz", "fuzz": "FuzzC08", "tags": "verif", "thorough": {"fuzztime": "45s", "timeout": 600}},
        ],
    },
    "C12": {
        "level": "exploration",
        "rule": "rapid-generated batches over schemas with 1..3 thesauri, ~65 % synonym documents (1..3 left-hand terms with 1..3 synonyms each from a shared vocabulary of 4 or 9 strings) mixed with ordinary documents; each is observed in memory and after persist+open: term enumeration per thesaurus, Contains, SynonymsList for every term (plus unknown terms/thesauri and ordinary field names) under nil, palette and random exclusion bitmaps, with and without passing the previous list/iterator back as preallocation; non-trivial = a term defined by >= 2 documents with an exclusion bitmap hitting some but not all of them",
        "assumptions": COMMON_ASSUME + ["synonym terms and synonyms are non-empty and every left-hand term has >= 1 synonym; synonym fields occur only in synonym documents, one per document"],
        "technique": "property-based testing (rapid): thesaurus lookups vs. reference model, in-memory and re-opened, with exclusion bitmaps and preallocation reuse",
        "level_text": "Randomised exploration with shrinking against the reference model for both build tags.",
        "level_note": "Trusts the reference model; the vectors-tag stage runs against the fake vector engine.",
        "stages": [
            rapid_stage("thesaurus", "TestC12", 300, 2000),
            rapid_stage("thesaurus-vectors", "TestC12", 120, 600, tags="verif,vectors", tshards=4),
        ],
    },
    "C07": {
        "level": "exploration",
        "rule": "three stages. enum: bounded-exhaustive - for N documents one segment per chunk size in {1,2,3,N} holds all 2^N-1 postings sets in two fields (x: per-(term,doc) distinct frequency/length/locations; y: frequency 1 without locations, so singletons become 1-hit entries after a merge), built / opened / merged once; for every P, every exclusion set E, every flag set in {FFF,TTF,TTT} and EVERY Next/Advance(t in (last,N]) sequence until nil plus one call after nil the results, Count and ActualBitmap/DocNum1Hit are compared with a reference iterator (quick: N<=4 all flags, N=5 full-detail flags; thorough: N<=6, N=7). large: rapid cases over 1023..2300-document lists, modes {1026,1025,1024,100,1,7,512}, random exclusion, random Next/Advance scripts with deltas around chunk boundaries, ReplaceActual(subset) on fresh iterators. reuse: rapid histories of list/iter/next/advance/count/replace actions over two segments passing the previous list/iterator (or the empty sentinel) back as preallocation; non-trivial = a combination with >= 2 non-excluded hits (enum), an Advance that skips on a > 1024 list (large), a list recycled for a different term/field/segment (reuse)",
        "assumptions": COMMON_ASSUME + ["Advance targets are strictly beyond the last returned document; a recycled list invalidates iterators derived from it; ReplaceActual is applied to a fresh bitmap-backed iterator with a subset of its actual bitmap"],
        "technique": "bounded-exhaustive enumeration of postings sets x exclusion sets x call sequences against a reference iterator, plus property-based testing (rapid) of large lists and preallocation-reuse histories",
        "level_text": "Small-scope exhaustive (the finite space up to the stated bound is enumerated completely and flagged exhaustive) plus randomised exploration with shrinking beyond it.",
        "level_note": "Trusts the 20-line reference iterator and the reference model; exhaustive only within the stated bound.",
        "stages": [
            {"name": "enum", "test": "TestC07Enum", "tags": "verif",
             "quick": {"shards": 4, "timeout": 600}, "thorough": {"shards": 14, "timeout": 3000}},
            rapid_stage("large", "TestC07Large", 150, 1500),
            {"name": "large-big", "test": "TestC07Big", "tags": "verif", "quick": {"shards": 1, "timeout": 600}, "thorough": {"shards": 1, "timeout": 1500}},
            rapid_stage("reuse", "TestC07Reuse", 400, 4000),
            {"name": "fuzz", "fuzz": "FuzzC07", "tags": "verif", "thorough": {"fuzztime": "45s", "timeout": 600}},
        ],
    },
    "C09": {
        "level": "exploration",
        "rule": "two halves. forward: rapid-generated merge plans (C05/C06/C13 generators, all chunk modes, doc values, thesauri, optional wide leaf; vector fields under the vectors tag); every merge output and the persisted form of up to three leaves per case is decoded by an independent reader (harness/indep, written from zap.md/README and a layout description only, never importing zapx) and its observation is compared with the reference model, plus CRC / chunk-mode footer checks. corpus: 38 files written by the pinned release (commit 562467b + add-only hooks) covering every section type except vectors, chunk modes {1,3,1024,1025,1026}, > 64 KiB stored values, thesauri, 1-hit entries from merges and the empty segment are re-opened by the current code on every run and must give exactly the answers recorded when they were written (and the model's, and the independent reader's); non-trivial (forward) = a file with >= 2 fields and a postings list with >= 2 hits or doc values; every frozen file counts as non-trivial",
        "assumptions": COMMON_ASSUME + ["the independent reader is itself trusted as a faithful reading of the documented layout; vector index blobs are the fake engine's own format, only their envelope (id table, lengths) is covered", "one frozen file contains a thesaurus block without NST written by the pinned release (a repaired defect); it is checked for unchanged answers but not decoded independently"],
        "technique": "property-based testing (rapid) with an independent decoder as oracle (forward) and differential replay of a frozen corpus written by the pinned release (backward)",
        "level_text": "Randomised exploration with shrinking for the forward direction; the backward direction is a fixed corpus, re-read exhaustively on every run.",
        "level_note": "Trusts the independent reader (1100 lines, own tests) and vellum/roaring/snappy.",
        "stages": [
            {"name": "corpus", "test": "TestC09Corpus", "tags": "verif", "quick": {"shards": 1, "timeout": 300}, "thorough": {"shards": 1, "timeout": 300}},
            rapid_stage("forward", "TestC09", 200, 1200),
            rapid_stage("forward-wide", "TestC09Wide", 25, 200),
            {"name": "forward-fixed", "test": "TestC09Fixed", "tags": "verif", "quick": {"shards": 1, "timeout": 600}, "thorough": {"shards": 1, "timeout": 1500}},
            rapid_stage("forward-vectors", "TestC09", 60, 400, tags="verif,vectors", tshards=4),
            {"name": "fuzz", "fuzz": "FuzzC09", "tags": "verif", "thorough": {"fuzztime": "45s", "timeout": 600}},
        ],
    },
    "C10": {
        "level": "exploration",
        "rule": "history: rapid-generated histories of 2..8 builds in one process from a big schema (3..6 fields, composite, thesauri, vector fields under the tag) and a small one (1..2 fields): large-then-small, many-fields-then-few, synonym/vector batches followed by plain ones, empty batches, builds rejected by ValidateDocFields (15 %), random chunk modes, an optional wide batch; the builder pools are reset by hook at the start of a history and GOMAXPROCS is 1 so the pool hands the same builder back - this is measured per build through a counting hook, not assumed; every successful build's complete observation must equal the model of its own batch, a rejected build must return the validator's error. concurrent: 2..16 goroutines running such histories simultaneously (thorough: under the race detector); non-trivial = a history in which a batch follows one with strictly more fields or terms (history) / >= 2 goroutines (concurrent)",
        "assumptions": COMMON_ASSUME + ["interleavings of concurrent builders are sampled (Go scheduler, race detector), not enumerated; a schedule-dependent failure is replayed by re-running the same histories"],
        "technique": "property-based testing (rapid) over build histories with a measured pool-reuse hook vs. reference model of each batch alone; concurrent histories under the race detector",
        "level_text": "Randomised exploration with shrinking of build histories; pooled-builder reuse is forced and measured; concurrent stage samples schedules.",
        "level_note": "Trusts the reference model; pool reset/counter hooks (build tag verif) only re-initialise the two sync.Pools.",
        "stages": [
            {"name": "reuse-measured", "test": "TestC10ReuseMeasured", "tags": "verif", "quick": {"shards": 1, "timeout": 120}, "thorough": {"shards": 1, "timeout": 120}, "nostats": True},
            rapid_stage("history", "TestC10", 150, 1200),
            {"name": "history-fixed", "test": "TestC10Fixed", "tags": "verif", "quick": {"shards": 1, "timeout": 600}, "thorough": {"shards": 1, "timeout": 1500}},
            rapid_stage("history-vectors", "TestC10", 60, 400, tags="verif,vectors", tshards=4),
            {"name": "concurrent", "test": "TestC10Concurrent", "tags": "verif",
             "quick": {"checks": 40, "shards": 1, "timeout": 300, "race": True}, "thorough": {"checks": 150, "shards": 8, "timeout": 1500, "race": True}},
        ],
    },
    "C11": {
        "level": "exploration",
        "rule": "pool-history (the harness owns the schedule): rapid-generated histories over one segment (in memory or mmap) of full visits, early-stopped visits (stop after 1..3 callbacks), DocID calls and overlap actions - a visitor that inside every callback lets a second goroutine complete a full visit of another document and then re-reads the bytes it was handed; pools reset by hook, GOMAXPROCS 1; every visit must match the model and visitor bytes must not change during the callback. stress: 2..8 goroutines each running a generated script of reader calls (dictionary enumeration, postings with private exclusion bitmaps, full and early-stopped stored visits, DocID, DocNumbers, doc values with a private state, thesaurus lookups, merges that take the shared segment as input) against one fresh segment, each answer compared with the model; thorough runs under the race detector (a race report halts the run and is reported as a violation of the case that was running); non-trivial = an early-stopped visit followed by an overlap (pool-history) / >= 2 goroutines with a concurrent merge (stress)",
        "assumptions": COMMON_ASSUME + ["interleavings of the stress stage are sampled, not enumerated, and a schedule-dependent failure may not reproduce from its replay file; the pool-history stage is deterministic"],
        "technique": "property-based testing (rapid): deterministic pool-state histories with a harness-owned hand-off schedule, plus randomized concurrent reader scripts vs. reference model under the race detector",
        "level_text": "Deterministic exploration with shrinking of the shared-pool histories named in the property; sampled schedules for free-running readers.",
        "level_note": "Trusts the reference model; the race detector only sees executed interleavings.",
        "stages": [
            rapid_stage("pool-history", "TestC11Pool", 300, 4000),
            {"name": "single-processor", "test": "TestC11Window", "tags": "verif", "quick": {"shards": 1, "timeout": 600}, "thorough": {"shards": 1, "timeout": 1500}},
            {"name": "stress", "test": "TestC11Stress", "tags": "verif",
             "quick": {"checks": 100, "shards": 1, "timeout": 300, "race": True}, "thorough": {"checks": 400, "shards": 8, "timeout": 1500, "race": True}},
        ],
    },
    "C17": {
        "level": "fault_enumeration",
        "evaluations_from_extra": "faulted_operations",
        "rule": "rapid-generated inputs (C05-style merge plans with doc values and thesauri, vector fields under the tag) x operation in {WriteTo, Persist, Merge} x DefaultFileMergerBufferSize in {1,7,64,4096,1 MiB} x injected write failure at byte offset n: WriteTo - every offset 0..size-1 through a failing io.Writer; Persist/Merge - through RLIMIT_FSIZE=n with SIGXFSZ ignored (the kernel accepts exactly n bytes of the destination file): every offset when the output is <= 600 bytes (thorough: <= 8 KiB; WriteTo: <= 16 KiB), else the first and last 64 (thorough 256) offsets, both sides of up to 40 buffer-flush boundaries and of every 4 KiB boundary, and 8..24 generated offsets; plus the fault-free run (footer/CRC, re-open, full observation == model) and a path in a missing directory; oracle: fault => error returned and no file at the path; non-trivial = a case whose output has >= 1 document; the evidence counts faulted operations and those strictly inside the body",
        "assumptions": COMMON_ASSUME + ["only 'write fails at offset n' faults are injected; fsync/close failures are not reachable offline", "RLIMIT_FSIZE is process-wide: nothing else writes files while an operation runs under a lowered limit (single-goroutine check; verified by a self-test at start)"],
        "technique": "fault enumeration over write offsets (failing io.Writer / RLIMIT_FSIZE) on rapid-generated inputs, with a re-open + reference-model oracle for the fault-free run",
        "level_text": "Fault enumeration: for every generated input the injectable write-failure points of the operation are enumerated (completely for small outputs, by flush-boundary classes for larger ones).",
        "level_note": "Trusts the kernel's RLIMIT_FSIZE semantics (self-tested) and the reference model.",
        "stages": [
            rapid_stage("write-faults", "TestC17", 40, 150, tshards=12, qtimeout=600),
            rapid_stage("write-faults-vectors", "TestC17", 12, 60, tags="verif,vectors", tshards=4, qtimeout=600),
        ],
    },
    "C18": {
        "level": "fault_enumeration",
        "evaluations_from_extra": "merges_executed",
        "rule": "rapid-generated merge plans (doc values, thesauri; vector fields under the tag) x DefaultFileMergerBufferSize in {1,7,64,4096,1 MiB} x closure point of the close channel: closed before the call; closed inside the k-th ReportBytesWritten callback for every k <= W (W = number of reports of the uncancelled run; every k when W <= 120, else ~120 evenly spaced, thorough 400); under the vectors tag closed at the j-th vector-engine operation (j <= 60); never closed; and 2..6 asynchronous closers after a generated spin count; oracle: result is either (closed error, no file) or (nil, a complete file: footer/CRC valid, re-opened observation == model, reported size == file length); pre-closed => the closed error; after every attempt the fake engine's live-index count is back at baseline; the evidence reports how many closure points produced the closed error per progress decile; non-trivial = a plan whose output has >= 1 document",
        "assumptions": COMMON_ASSUME + ["the moment of closing is made deterministic by closing inside the merge's own stats-reporter callback (between two isClosed polls); free-running asynchronous closers only sample schedules"],
        "technique": "fault enumeration over cancellation points (closure at the k-th write report / j-th engine operation) on rapid-generated merge plans, with a re-open + reference-model oracle",
        "level_text": "Enumeration of the closure points the merge exposes through its write reports, for every generated plan and buffer size.",
        "level_note": "Trusts the reference model; under the vectors tag the fake engine.",
        "stages": [
            rapid_stage("cancel", "TestC18", 16, 120, qshards=2, tshards=12, qtimeout=600),
            rapid_stage("cancel-vectors", "TestC18", 12, 60, tags="verif,vectors", tshards=4, qtimeout=600),
            {"name": "cancel-fixed-vectors", "test": "TestC18Fixed", "tags": "verif,vectors", "quick": {"shards": 1, "timeout": 300}, "thorough": {"shards": 1, "timeout": 600}},
        ],
    },
    "C20": {
        "level": "exploration",
        "rule": "enum: every sequence over {AddRef, DecRef, Close} whose model count stays positive until its last operation, which brings it to zero, up to length 9 (quick: 550 sequences) / 13 (thorough), each on a freshly opened 3-document segment with a read between every two operations (full observation for short sequences and at both ends, a multi-API light read otherwise, with SetPanicOnFault), every release must return nil, and /proc/self/maps + /proc/self/fd must show the file mapped/open exactly once while the count is positive and not at all after the last operation. random: rapid sequences with up to 28 AddRefs (length <= 57). holders: 1..12 goroutines holding one reference each (reads, extra AddRef/DecRef pairs, final DecRef) concurrent with the opener's reads and Close (thorough: race detector). burst: 2..4 holders spin on a flag and drop the last references at the same instant (1500 trials quick, 20000 x 2 thorough), every release must return nil and the file must be released. The segment carries two thesauri (and a vector field in the vectors-tag stages) and every read touches them, so caches cleared by a non-final Close are noticed. in-memory: build, read, AddRef/DecRef/Close of in-memory segments (fake-engine live count back to baseline under the tag); non-trivial = a sequence using AddRef, DecRef and Close (enum/random), >= 2 holders (holders)",
        "assumptions": COMMON_ASSUME + ["nothing is used after the final release; holders obtain their reference from the opener before they start (as scorch does)"],
        "technique": "bounded-exhaustive enumeration of reference-count sequences with OS-level observation of the mapping/descriptor, plus property-based testing (rapid) of longer sequences and concurrent holders",
        "level_text": "Small-scope exhaustive over balanced sequences up to the stated length (flagged exhaustive), randomised beyond; concurrent holders sample schedules.",
        "level_note": "Trusts /proc/self/maps and /proc/self/fd as ground truth for mapping and descriptor lifetime.",
        "stages": [
            {"name": "enum", "test": "TestC20Enum", "tags": "verif", "quick": {"shards": 2, "timeout": 300}, "thorough": {"shards": 14, "timeout": 2400}},
            rapid_stage("random", "TestC20Random", 200, 2000),
            {"name": "holders", "test": "TestC20Holders", "tags": "verif",
             "quick": {"checks": 100, "shards": 1, "timeout": 300, "race": True}, "thorough": {"checks": 600, "shards": 8, "timeout": 1500, "race": True}},
            {"name": "burst", "test": "TestC20Burst", "tags": "verif", "quick": {"shards": 1, "timeout": 300}, "thorough": {"shards": 2, "timeout": 900}},
            {"name": "enum-vectors", "test": "TestC20Enum", "tags": "verif,vectors", "quick": {"shards": 2, "timeout": 300, "env": {"VERIF_C20_MAXLEN": 7}}, "thorough": {"shards": 8, "timeout": 1500, "env": {"VERIF_C20_MAXLEN": 11}}},
            {"name": "in-memory", "test": "TestC20InMemory", "tags": "verif", "quick": {"shards": 1, "timeout": 120}, "thorough": {"shards": 1, "timeout": 120}},
            {"name": "in-memory-vectors", "test": "TestC20InMemory", "tags": "verif,vectors", "quick": {"shards": 1, "timeout": 120}, "thorough": {"shards": 1, "timeout": 120}},
        ],
    },
    "C14": {
        "level": "exploration",
        "rule": "rapid-generated batches with 1..2 vector fields (dimension 1..4; L2 / dot product with small integer coordinates, cosine with signed unit axis vectors so every score is exact in float32; all three optimisation modes; 0..3 vectors per document, repeated vectors, documents without vectors; ~6 % of cases add 1000..1500 one-vector documents so the index is a clustered one) x 2..8 queries (random / wrong-dimension vectors, absent and non-vector fields, k in {1,2,3,5,n,n+3}, exclusion bitmaps from the palette, filtered searches with eligible sets in {empty, single, < half, > half, all live} disjoint from the exclusion); each query runs on the in-memory segment and on the re-opened copy of the same build; oracle = validity predicate (every pair is a true (document, score) of a live/eligible document, at most k pairs, and for exact indexes every strictly-better-than-k-th pair is present, nothing worse, tie group size consistent), num_vectors statistic, empty results for wrong dimension / no vectors, identical answers in memory and re-opened; non-trivial = a query on a field with >= 3 vectors, k below the number of vectors and an exclusion or filter",
        "assumptions": COMMON_ASSUME + VEC_ASSUME + ["a filtered search passes an eligible list disjoint from the exclusion bitmap (it comes from a filter over the same snapshot)", "cosine fields receive normalised vectors (bleve normalises them); the generator uses exactly normalised axis vectors"],
        "technique": "property-based testing (rapid): vector search vs. a top-k validity predicate computed from the reference model, against a fake exact/IVF engine",
        "level_text": "Randomised exploration with shrinking; exact-index answers are decided up to ties, clustered-index answers by the soundness part of the predicate.",
        "level_note": "Trusts the fake vector engine (own unit tests + fuzzing) and the reference model.",
        "stages": [rapid_stage("vector-search", "TestC14", 300, 2500, tags="verif,vectors"),
                   {"name": "identical-vectors", "test": "TestC14Identical", "tags": "verif,vectors", "quick": {"shards": 1, "timeout": 600}, "thorough": {"shards": 1, "timeout": 900}}],
    },
    "C15": {
        "level": "exploration",
        "rule": "rapid-generated merge plans (depth 1..3, 1..3 children, built / opened / merged inputs) over schemas with 1..2 vector fields; fields present in only some inputs, inputs all of whose vectors are deleted, fields whose every vector is deleted; ~5 % of plans have a 995..1200-vector leaf so the merged index is clustered; for every merge output: the num_vectors statistic equals the number of surviving vectors, probe queries with k = all return exactly the model's (document, score) set under the new numbering (exact class) / satisfy the C14 predicate (clustered), k in {1,2} satisfy the predicate, fields without a surviving vector answer nothing and report no statistic, wrong-dimension queries answer nothing, and the engine saw no double close / use after close; non-trivial = a merge with >= 2 inputs having the field and >= 1 deleted vector-bearing document",
        "assumptions": COMMON_ASSUME + VEC_ASSUME,
        "technique": "property-based testing (rapid): generated merge-plan trees with vector fields vs. reference model of the survivors, against the fake engine",
        "level_text": "Randomised exploration with shrinking over merge chains of segments with vector fields.",
        "level_note": "Trusts the fake vector engine and the reference model.",
        "stages": [rapid_stage("merge-vectors", "TestC15", 200, 1500, tags="verif,vectors"),
                   {"name": "merge-restart", "test": "TestC15Restart", "tags": "verif,vectors", "quick": {"shards": 1, "timeout": 300}, "thorough": {"shards": 1, "timeout": 600}},
                   {"name": "merge-identical", "test": "TestC15Identical", "tags": "verif,vectors", "quick": {"shards": 1, "timeout": 900}, "thorough": {"shards": 1, "timeout": 1200}}],
    },
    "C16": {
        "level": "exploration",
        "rule": "cache-history: rapid-generated histories of 3..25 actions on one segment (in memory or mmap, 1..2 vector fields, 4 % clustered) over {open(field, filtering, one of 4 exclusion bitmaps), search / filtered search through any open handle, close-handle, expire (one synchronous pass of the cache's expiry logic via hook, the timer parked at 1 h)} followed by closing every handle and the segment; every answer must equal the answer of a freshly opened copy of the same file with an empty cache (exact comparison, same index bytes) and satisfy the C14 predicate; the fake engine must report no use after close, no double close, no close during an in-flight operation, and its live-index count must return to the pre-case value. cache-stress: 2..6 goroutines searching with their own bitmaps while the expiry monitor runs at 1 ms (thorough: race detector), answers compared with precomputed fresh-copy answers; non-trivial = a second open of a field with a different exclusion bitmap than the one that filled the cache, or an expiry between two opens",
        "assumptions": COMMON_ASSUME + VEC_ASSUME + ["handles are closed exactly once and not used after the segment is closed; the real timer-vs-query race is only sampled by the stress stage"],
        "technique": "property-based testing (rapid): generated cache histories with a differential oracle (fresh copy of the same file) and engine-side lifetime counters; concurrent stress under the race detector",
        "level_text": "Randomised exploration with shrinking of cache histories with a harness-owned expiry schedule; schedules of the concurrent stage are sampled.",
        "level_note": "Trusts the fake engine's lifetime instrumentation; expiry is driven through an add-only hook that calls the cache's own cleanup pass.",
        "stages": [
            rapid_stage("cache-history", "TestC16", 300, 2500, tags="verif,vectors"),
            {"name": "cache-history-fixed", "test": "TestC16Fixed", "tags": "verif,vectors", "quick": {"shards": 1, "timeout": 600}, "thorough": {"shards": 1, "timeout": 1500}},
            {"name": "cache-stress", "test": "TestC16Stress", "tags": "verif,vectors",
             "quick": {"checks": 40, "shards": 1, "timeout": 300, "race": True}, "thorough": {"checks": 150, "shards": 6, "timeout": 1500, "race": True}},
        ],
    },
    "C19": {
        "level": "fault_enumeration",
        "evaluations_from_extra": "faulted_operations",
        "rule": "rapid-generated build scenarios (a batch with 1..2 vector fields, exact and occasionally clustered) and merge scenarios (C15 plans, children built fault-free) x for each engine operation in {IndexFactory, SetDirectMap, Train, AddWithIDs, WriteIndexIntoBuffer, ReadIndexFromBuffer, ReconstructBatch} x every n up to the number of calls seen in the fault-free run: the n-th call is made to fail; oracle: New/Merge returns an error - or, if it returns nil, the resulting segment must hold every vector the model says (statistic + probe searches), so a silently empty or partial field is a violation; a failed merge leaves no file; the engine's live-index count returns to baseline after a bounded wait; non-trivial = a scenario whose result has >= 1 vector; evaluations = faulted operations",
        "assumptions": COMMON_ASSUME + VEC_ASSUME,
        "technique": "fault enumeration over vector-engine calls (n-th call of each operation fails) on rapid-generated build and merge scenarios",
        "level_text": "Fault enumeration: every engine call made by the fault-free run of each generated scenario is failed once.",
        "level_note": "Trusts the fake engine's fault plan and live-index counters and the reference model.",
        "stages": [
            rapid_stage("engine-faults", "TestC19", 80, 600, tags="verif,vectors"),
            {"name": "engine-faults-huge", "test": "TestC19Huge", "tags": "verif,vectors", "quick": {"shards": 1, "timeout": 600}, "thorough": {"shards": 1, "timeout": 1500}},
        ],
    },
}

# Additions made after the third round of seeded changes (appended to the rules above).
RULE_ADDENDA = {
    "C01": "absent terms are also looked up after the iterator of an empty result was recycled for a present term and read partly",
    "C03": "35 % of cases first use both segments as merge inputs, 40 % alternate between two private visit states",
    "C06": "40 % of merge-index plans run with doc-value chunks of 1..5 documents and a doc-value field that fills one chunk of a leaf and is absent from the next; a deterministic stage (merge-fixed) merges a 1100-document leaf between small neighbours whose next field starts with the same or the empty term, and with the dense term absent from the first input, in modes 1025/1026/default, once and twice",
    "C07": "the enumeration has a third field z indexed without frequency/norm and with locations in every other document",
    "C08": "a deterministic stage (dictionary-remerge) enumerates the dictionaries of the merge-fixed scenarios after a third, byte-copying merge generation",
    "C09": "a deterministic stage (forward-fixed) decodes the merge-fixed scenarios of C06 with the independent reader",
    "C10": "every build is also streamed with WriteTo and its footer CRC recomputed; BytesWritten() must not exceed the image size and for an empty batch must equal what a new builder reports",
    "C11": "single-processor: GOMAXPROCS 1, 150 (thorough 800) re-encoding merges of a 600-document segment with 16 KiB of stored values per document (output fully buffered) while a second goroutine visits stored fields of another segment; every merge output is re-opened and compared",
    "C12": "15 % of schemas name a thesaurus like a text field; 1..4 generated listings per case combine an automaton (levenshtein, prefix, exact, contains, length) with optional start/end bounds on every thesaurus",
    "C13": "the C12 lookup surface (exclusions, unknown terms, recycled and partly drained iterators) runs on every merged node",
    "C14": "all queries of a field also run through ONE handle, each result list being read only after the following search was issued",
    "C15": "every merged file is decoded with the independent reader and its vector envelope (id table, optimisation type, index bytes) compared with the survivors",
    "C16": "40 % of search actions defer reading their result list until after the next search on that handle (or its Close)",
    "C17": "35 % of cases pre-create the destination as an empty file; outputs <= 256 KiB are also written to a FIFO destination (drained in the background), where every write succeeds and the final sync fails",
    "C18": "40 % of cases use doc-value chunks of 1..3 documents; every attempt has a destination directory of its own which must be empty after an error and hold only the destination after success; chunk modes 1027 and 70000 with the channel open and closed before the call",
    "C19": "35 % of merge scenarios pre-create the destination as an empty file; every merge fault is repeated with the close channel closed when the failing call is entered; the destination directory must be empty after a failed merge",
    "C20": "sequences also use the held segment as input of public Merge calls that succeed, are cancelled before the call or cannot create their destination (count unchanged); a goroutine blocked >= 1 minute on a lock taken inside zapx is reported as a leaked lock",
}
for _k, _v in RULE_ADDENDA.items():
    PROPS[_k]["rule"] += "; added after the third round of seeded changes: " + _v

RULE_ADDENDA_4 = {
    "C01": "the quick tier also builds a 76000-document batch with locations",
    "C04": "a deterministic stage (image-lengths) places the image length of one batch on B + {1,26,51,52,0,-1} bytes for B in {4 KiB, 64 KiB, 1 MiB}, steered by the size the build reports, and requires WriteTo to emit exactly data + 52 bytes and Persist to write the same bytes",
    "C06": "the fixed plans include a re-encoding merge of two 140-field inputs with locations",
    "C08": "empty end keys are generated; a deterministic stage (dictionary-big) enumerates a term present in every one of 65544 documents, built and re-opened",
    "C12": "every pair of equal-length terms is looked up through one key buffer overwritten in place",
    "C15": "for outputs with >= 1000 surviving vectors the survivors are also built directly and both index blobs must probe the same number of clusters",
    "C16": "cache-stress starts with 25 (thorough 150) cold-start rounds: unfiltered and filtered first searches of every field released by a barrier on a freshly opened copy",
    "C18": "outputs <= 256 KiB are also merged to a FIFO destination (sync fails) with the channel closed at reports {W, W-1, W-2, W/2, 1, never}",
    "C20": "operation K merges the held segment with a second one, cancelled at every progress report, reading the held segment after each; in-memory: after closing a 3000-document in-memory segment two small ones are built and read (A, B, A)",
}
for _k, _v in RULE_ADDENDA_4.items():
    PROPS[_k]["rule"] += "; added after the fourth round: " + _v

RULE_ADDENDA_5 = {
    "C01": "every list is iterated under seven detail-flag combinations, comparing only the requested details",
    "C02": "every bitmap returned by DocNumbers is modified after it was compared, and two lookups without any hit follow",
    "C03": "all visits of a script pass one copy of the field list, which must stay unchanged",
    "C05": "25 % of plans carry the same external id in two leaves; DocNumbers runs on the sorted, reversed and document-order id lists; the deterministic merge scenarios of C06 (incl. an empty first input with all but three / all but one document of the dense input deleted) also run here",
    "C07": "histories and the enumerations for N <= 3 use all eight detail-flag combinations",
    "C11": "stress goroutines share one doc-value field list starting with an unknown name and treat DocNumbers results as their own",
    "C12": "a twin batch (every synonym replaced by a string of the same length) is built and every term looked up in it with the list recycled from the original segment; the vocabulary contains two strings with the same CRC-32",
    "C14": "results of the shared-handle pass are read through the partly drained iterator of the previous non-empty result; eligible sets include the first and the last three quarters of the live documents",
    "C16": "a deterministic history (cache-history-fixed) alternates eligible sets [0,900) and [300,1200) on one handle of a 1200-vector clustered index; cache-stress adds an expiry hammer: three goroutines open/search/close 150 (thorough 1500) times each while a fourth runs expiry passes back to back",
    "C19": "the engine's misuse counters (double close, use after close) must stay zero after every faulted build and merge",
    "C20": "the fixed sequences also run on a persisted empty batch (zero-document file)",
}
for _k, _v in RULE_ADDENDA_5.items():
    PROPS[_k]["rule"] += "; added after the fifth round: " + _v

RULE_ADDENDA_6 = {
    "C01": "a deterministic case builds 4 documents x 140 fields plus a composite field naming source fields with ids on both sides of 128",
    "C06": "the fixed scenarios include a single-hit entry (generation 1) whose document is deleted in generation 2 next to a 1023 / 1024-document input",
    "C07": "the big scenario uses 76000 documents (serialized bitmaps beyond 16 KiB)",
    "C08": "dictionary-big also enumerates a 76000-document segment with locations (every length field of the postings header needs 3..4 bytes)",
    "C10": "every build of a history carries a synonym string of its own; no build's image may contain the marker of another build",
    "C14": "the exclusion bitmap passed when a handle is opened is overwritten by the caller before the search (and restored afterwards); 30 % of filtered queries pass their eligible list in descending order",
    "C16": "the deterministic history also runs a sparse, large-k filtered search between two identical plain searches of a second handle",
    "C17": "WriteTo also runs against a destination that fails ONE write (short write with EAGAIN / EINTR / EIO) and then works again: an error, or exactly the image; the merge of an empty input list must report the truth about its path",
}
for _k, _v in RULE_ADDENDA_6.items():
    PROPS[_k]["rule"] += "; added after the sixth round: " + _v

PROPS["C17"]["rule"] += "; after the fault series two gated, overlapping fault-free WriteTo calls (this segment and a small other one) must each deliver exactly their own image"

RULE_ADDENDA_7 = {
    "C02": "id lists made of present ids only (ascending / descending) so that an id carried by two documents precedes other present ids; for re-opened cases a twin file (every stored value's last byte flipped: same shape, other content) is opened right after the first file was closed, the last visit on the old file and the first on the new one being the same document number",
    "C04": "every other batch is persisted onto a destination reserved beforehand as an empty file; everything the opened segment handed out (field names, terms, values) is read again after its Close; image lengths are steered onto write-buffer boundaries (stage image-lengths)",
    "C05": "the fixed merge plans of C06 (stage merge-fixed) are also judged by the stored-field / id oracle; every other merge writes onto a destination reserved as an empty file",
    "C06": "fixed plans with three inputs whose field lists diverge after a common prefix, and with hits carrying more than 127 bytes of locations through a byte-copy merge",
    "C10": "a deterministic history (history-fixed) builds a batch whose image exceeds 16 MiB and then small non-empty batches on the same pooled builder",
    "C11": "the stress mix calls Size() concurrently with first-time dictionary loads",
    "C14": "half of the clustered layouts give every third document a second vector; eligible sets include 'only documents with one vector', also as fixed queries whose query vector is the second vector of an ineligible document; every case ends with a filtered, fully selective query of the wrong dimension; a deterministic case (identical-vectors) builds 150000 documents carrying the same vector, all of which must be indexed and counted",
    "C15": "a deterministic plan (merge-restart) whose leaves were built and persisted by OTHER processes (files from before a restart; same vectors in the same order under different ids), merged, and merged again with a further such file; a deterministic plan (merge-identical) merges two inputs of 100000 documents that all carry the same vector: the output must hold and count every one of them",
    "C16": "15 % of searches are failed by the engine (the handle must survive and other handles be unaffected); the deterministic history fails a search of a second handle, closes it, runs four expiry passes and searches through the first handle",
    "C17": "under the vectors tag a file reported as complete must hold every surviving vector",
    "C18": "every engine-operation closure point is tried 3..24 times (the order in which sections are merged varies per call); a deterministic plan (cancel-fixed-vectors) merges three inputs with vectors in one field; a success must hold every surviving vector",
}
for _k, _v in RULE_ADDENDA_7.items():
    PROPS[_k]["rule"] += "; added after the seventh round: " + _v

RULE_ADDENDA_8 = {
    "C02": "a deterministic batch (stored-fixed) with two heavy stored records: 40 values with array positions next to 3 MiB of incompressible data, and 4200 values next to 20 KiB (record headers with 2+4 and 3+3 length bytes), in memory and re-opened",
    "C11": "half of the stress merges are followed by a second-generation merge of their own output (byte-copying path over single-hit entries), concurrently in all goroutines",
    "C12": "for every term with >= 2 pairs two iterators are asked of ONE list without preallocation: the first is read once, the second drained, the first continued - both must yield the whole set",
    "C17": "every merge case also runs with EVERY document deleted (a merge without survivors): fault-free, then cut at offsets {0, 1, 10, size-52, size-1}",
}
for _k, _v in RULE_ADDENDA_8.items():
    PROPS[_k]["rule"] += "; added after the (partial) eighth round: " + _v
