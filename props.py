# Per-property check configuration for ./check (stages, case counts, evidence text).
#
# stage: name (= the Stage of the Go Check / replay dispatch key), test (Go test function),
#        tags, quick/thorough: {checks, shards, timeout, race, env}

COMMON_ASSUME = [
    "inputs are restricted to what bleve/scorch can hand to zapx (DESIGN.md §3.3): one stored+indexed _id per document, non-empty field names, terms without 0xff, analysed length >= 1 and < 2^30 when a frequency is > 0, doc-value option consistent per field name",
    "vellum (FST), roaring and snappy are trusted third-party encodings",
    "segments stay small (<= ~2300 documents, <= ~1 MiB); doc numbers near 2^31 and > 4 GiB files are not generated",
]
VEC_ASSUME = [
    "the native FAISS library is not installed: the vectors build runs against the pure-Go fake engine in /verif/fakefaiss (exact brute force, genuine IVF probing, instrumentation); what is checked is zapx's own logic, not FAISS numerics",
]


def rapid_stage(name, test, quick, thorough, tags="verif", qshards=1, tshards=12, qtimeout=300, ttimeout=1500, **kw):
    st = {"name": name, "test": test, "tags": tags,
          "quick": {"checks": quick, "shards": qshards, "timeout": qtimeout},
          "thorough": {"checks": thorough, "shards": tshards, "timeout": ttimeout}}
    st.update(kw)
    return st


PROPS = {
    "C01": {
        "level": "exploration",
        "rule": "rapid-generated batch specifications (0..40 explicit documents plus an optional parametric 'wide' part of 1023..2300 one-field documents) x chunk mode; a case is non-trivial when the batch has >= 2 documents and >= 1 term with >= 2 hits; distinct = distinct FNV-64 hash of the case JSON",
        "assumptions": COMMON_ASSUME,
        "technique": "property-based testing (rapid): generated batches vs. reference model through the public segment API",
        "level_text": "Randomised exploration with shrinking: every generated batch x chunk mode is built by the real code and its complete term/postings/location surface is compared with an independent reference model; no proof, bounded sizes.",
        "level_note": "Trusts the ~300-line reference model (spec/model.go) and the stub documents; the vectors-tag build runs against the fake vector engine.",
        "stages": [
            rapid_stage("build", "TestC01", 400, 3000),
            rapid_stage("build-vectors", "TestC01", 150, 1000, tags="verif,vectors", tshards=4),
        ],
    },
}
